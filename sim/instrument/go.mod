module jmsim/instrument

go 1.26
