// Command instrument splices simulator seams into a scratch copy of the
// repository (never into /repo itself):
//
//   - simrt.Yield(<site>) after the opening brace of every function, function
//     literal and loop body, and before every statement of every block
//     (same-line splices: line numbers stay those of /repo);
//   - range X  ->  range simrt.RangeMap(<site>, X) whenever X's core type is a map;
//   - import substitution of sync, time, math/rand, math/rand/v2 and maps by
//     the shims under internal/simrt/... (only if the repository imports them).
//
// It also records constructs the simulator cannot own (go statements,
// reflect map iteration, channels) in sites.json so that the orchestrator can
// refuse to give a verdict (exit 2) instead of a wrong one.
package main

import (
	"encoding/json"
	"flag"
	"fmt"
	"go/ast"
	"go/importer"
	"go/parser"
	"go/token"
	"go/types"
	"os"
	"path/filepath"
	"sort"
	"strconv"
	"strings"
)

type site struct {
	ID   int    `json:"id"`
	File string `json:"file"`
	Line int    `json:"line"`
	Kind string `json:"kind"` // func, lit, loop, stmt, maprange
	Fn   string `json:"fn,omitempty"`
	Hot  bool   `json:"hot,omitempty"` // next to an access to shared state (package-level variable, sync, atomic)
}

type report struct {
	Module          string   `json:"module"`
	Sites           []site   `json:"sites"`
	Yields          int      `json:"yields"`
	MapRanges       int      `json:"map_ranges"`
	HotSites        int      `json:"hot_sites"`
	GoStmts         []string `json:"go_stmts"`
	ChanOps         []string `json:"chan_ops"` // select / range over channel: not owned by the simulator
	ChanRewritten   int      `json:"chan_rewritten"`
	GoRewritten     int      `json:"go_rewritten"`
	SelectRewritten int      `json:"select_rewritten"`
	ReflectMaps     []string `json:"reflect_map_iter"`
	Shimmed         []string `json:"shimmed_imports"`
	Unshimmed       []string `json:"unshimmed_imports"` // nondeterminism sources with no seam
	Packages        []string `json:"packages"`
}

// curFnBodyDepth: is the node on top of the stack inside a function body?
func curFnBodyDepth(stack []ast.Node) bool {
	for _, n := range stack {
		switch n.(type) {
		case *ast.FuncDecl, *ast.FuncLit:
			return true
		}
	}
	return false
}

type splice struct {
	off  int
	text string
	// replace [off,end) when end > off
	end int
}

var shimFor = map[string]string{
	"sync":         "ssync",
	"time":         "stime",
	"math/rand":    "srand",
	"math/rand/v2": "srand2",
	"maps":         "smaps",
	"hash/maphash": "smaphash",
}

var unshimmed = map[string]bool{
	"crypto/rand": true, "os": true, "net": true, "os/exec": true, "runtime": true, "unsafe": true, "weak": true, "unique": true,
}

func main() {
	dir := flag.String("dir", "", "scratch copy of the repository (modified in place)")
	stmts := flag.Bool("stmts", true, "also yield before every statement")
	out := flag.String("out", "", "where to write sites.json")
	flag.Parse()
	if *dir == "" {
		fmt.Fprintln(os.Stderr, "usage: instrument -dir <scratch> [-out sites.json]")
		os.Exit(2)
	}
	root, _ := filepath.Abs(*dir)
	mod := modulePath(filepath.Join(root, "go.mod"))
	if mod == "" {
		fail("cannot read module path from go.mod")
	}
	rep := &report{Module: mod}
	simrtPath := mod + "/internal/simrt"

	// collect package directories (skip testdata, hidden, and our own overlay)
	var pkgDirs []string
	filepath.Walk(root, func(p string, info os.FileInfo, err error) error {
		if err != nil {
			return nil
		}
		if info.IsDir() {
			b := filepath.Base(p)
			if p != root && (strings.HasPrefix(b, ".") || b == "testdata" || b == "vendor") {
				return filepath.SkipDir
			}
			rel, _ := filepath.Rel(root, p)
			if strings.HasPrefix(rel, filepath.Join("internal", "sim")) {
				return filepath.SkipDir
			}
			pkgDirs = append(pkgDirs, p)
		}
		return nil
	})
	sort.Strings(pkgDirs)

	if err := os.Chdir(root); err != nil {
		fail(err.Error())
	}
	fset := token.NewFileSet()
	imp := importer.ForCompiler(fset, "source", nil)
	nextSite := 1
	var unbufferedMakes, sends, selectSends []string
	unbufObjs := map[types.Object]bool{} // variables assigned an unbuffered channel
	sendObjs := map[types.Object]bool{}  // local variables that are sent on
	knownMakes := map[token.Pos]bool{}   // unbuffered makes whose variable is known
	var allMakes []token.Pos
	unknownSend := false // a send on a parameter, field or expression: flow unknown

	for _, d := range pkgDirs {
		ents, _ := os.ReadDir(d)
		var files []*ast.File
		var names []string
		var pkgName string
		for _, e := range ents {
			n := e.Name()
			if e.IsDir() || !strings.HasSuffix(n, ".go") || strings.HasSuffix(n, "_test.go") {
				continue
			}
			full := filepath.Join(d, n)
			f, err := parser.ParseFile(fset, full, nil, parser.ParseComments|parser.SkipObjectResolution)
			if err != nil {
				fail("parse " + full + ": " + err.Error())
			}
			if ignoredByBuildTag(f) {
				continue
			}
			if pkgName == "" {
				pkgName = f.Name.Name
			}
			if f.Name.Name != pkgName {
				continue
			}
			files = append(files, f)
			names = append(names, full)
		}
		if len(files) == 0 {
			continue
		}
		rel, _ := filepath.Rel(root, d)
		ipath := mod
		if rel != "." {
			ipath = mod + "/" + filepath.ToSlash(rel)
		}
		rep.Packages = append(rep.Packages, ipath)
		info := &types.Info{Types: map[ast.Expr]types.TypeAndValue{}, Uses: map[*ast.Ident]types.Object{}, Defs: map[*ast.Ident]types.Object{}, Selections: map[*ast.SelectorExpr]*types.Selection{}}
		conf := types.Config{Importer: imp, Error: func(err error) {}}
		_, terr := conf.Check(ipath, fset, files, info)
		if terr != nil {
			fail("type-check " + ipath + ": " + terr.Error())
		}
		for i, f := range files {
			src, err := os.ReadFile(names[i])
			if err != nil {
				fail(err.Error())
			}
			relFile, _ := filepath.Rel(root, names[i])
			var sp []splice
			tf := fset.File(f.Pos())
			off := func(p token.Pos) int { return tf.Offset(p) }
			line := func(p token.Pos) int { return tf.Line(p) }
			used := false
			curFn := ""
			add := func(p token.Pos, kind string) {
				id := nextSite
				nextSite++
				rep.Sites = append(rep.Sites, site{ID: id, File: relFile, Line: line(p), Kind: kind, Fn: curFn})
				rep.Yields++
				sp = append(sp, splice{off: off(p), text: "simrt.Yield(" + strconv.Itoa(id) + "); "})
				used = true
			}
			braced := map[token.Pos]bool{}
			noStmt := map[token.Pos]bool{}
			afterBrace := func(b *ast.BlockStmt, kind string) {
				if b == nil {
					return
				}
				braced[b.Lbrace] = true
				id := nextSite
				nextSite++
				rep.Sites = append(rep.Sites, site{ID: id, File: relFile, Line: line(b.Lbrace), Kind: kind, Fn: curFn})
				rep.Yields++
				sp = append(sp, splice{off: off(b.Lbrace) + 1, text: "simrt.Yield(" + strconv.Itoa(id) + "); "})
				used = true
			}
			isHot := func(st ast.Stmt) bool {
				hot := false
				ast.Inspect(st, func(n ast.Node) bool {
					if hot {
						return false
					}
					switch n := n.(type) {
					case *ast.BlockStmt, *ast.FuncLit:
						return n == ast.Node(st) // only the statement's own head, not nested bodies
					case *ast.Ident:
						if obj, ok := info.Uses[n].(*types.Var); ok && obj.Pkg() != nil && obj.Parent() == obj.Pkg().Scope() {
							if strings.HasPrefix(obj.Pkg().Path(), mod) && !isErrorType(obj.Type()) {
								hot = true
							}
						}
					case *ast.SelectorExpr:
						if sel, ok := info.Selections[n]; ok && sel.Obj() != nil && sel.Obj().Pkg() != nil {
							switch sel.Obj().Pkg().Path() {
							case "sync", "sync/atomic":
								hot = true
							}
						}
						if id, ok := n.X.(*ast.Ident); ok {
							if pn, ok := info.Uses[id].(*types.PkgName); ok {
								switch pn.Imported().Path() {
								case "sync", "sync/atomic":
									hot = true
								}
							}
						}
					}
					return true
				})
				return hot
			}
			stmtList := func(list []ast.Stmt, skipFirst bool) {
				if !*stmts {
					return
				}
				prevHot := false
				for i, s := range list {
					h := isHot(s)
					if i == 0 && skipFirst {
						// the block-entry yield already covers the first statement
						prevHot = h
						continue
					}
					switch s.(type) {
					case *ast.EmptyStmt:
						continue
					}
					add(s.Pos(), "stmt")
					if h || prevHot {
						rep.Sites[len(rep.Sites)-1].Hot = true
						rep.HotSites++
					}
					prevHot = h
				}
			}
			paramObjs := map[types.Object]bool{}
			ast.Inspect(f, func(n ast.Node) bool {
				if ft, ok := n.(*ast.FuncType); ok {
					for _, fl := range []*ast.FieldList{ft.Params, ft.Results} {
						if fl == nil {
							continue
						}
						for _, fld := range fl.List {
							for _, nm := range fld.Names {
								if obj := info.Defs[nm]; obj != nil {
									paramObjs[obj] = true
								}
							}
						}
					}
				}
				return true
			})
			commaOK := map[*ast.UnaryExpr]bool{}
			inSelect := map[ast.Node]bool{}
			ast.Inspect(f, func(n ast.Node) bool {
				switch n := n.(type) {
				case *ast.AssignStmt:
					if len(n.Lhs) == 2 && len(n.Rhs) == 1 {
						if u, ok := n.Rhs[0].(*ast.UnaryExpr); ok && u.Op == token.ARROW {
							commaOK[u] = true
						}
					}
				case *ast.ValueSpec:
					if len(n.Names) == 2 && len(n.Values) == 1 {
						if u, ok := n.Values[0].(*ast.UnaryExpr); ok && u.Op == token.ARROW {
							commaOK[u] = true
						}
					}
				case *ast.CommClause:
					if n.Comm != nil {
						ast.Inspect(n.Comm, func(m ast.Node) bool {
							if m != nil {
								inSelect[m] = true
							}
							// only the communication itself, not nested function literals
							_, isLit := m.(*ast.FuncLit)
							return !isLit
						})
					}
				}
				return true
			})
			// blocking select statements: which unlabeled `continue` statements in
			// their clause bodies target a loop outside the select, and what that
			// loop's label is (one is added if it has none)
			type selInfo struct {
				conts     []*ast.BranchStmt
				outer     ast.Stmt // enclosing loop, nil if none
				outerName string
			}
			selects := map[*ast.SelectStmt]*selInfo{}
			loopLabel := map[ast.Stmt]string{} // loops that need a label (value: name)
			{
				var stack []ast.Node
				labelOf := map[ast.Stmt]string{}
				ast.Inspect(f, func(n ast.Node) bool {
					if n == nil {
						stack = stack[:len(stack)-1]
						return true
					}
					if ls, ok := n.(*ast.LabeledStmt); ok {
						labelOf[ls.Stmt] = ls.Label.Name
					}
					if sel, ok := n.(*ast.SelectStmt); ok {
						blocking := true
						for _, c := range sel.Body.List {
							if cc, ok := c.(*ast.CommClause); ok && cc.Comm == nil {
								blocking = false
							}
						}
						if blocking {
							info := &selInfo{}
							for i := len(stack) - 1; i >= 0; i-- {
								if _, ok := stack[i].(*ast.FuncLit); ok {
									break
								}
								if _, ok := stack[i].(*ast.FuncDecl); ok {
									break
								}
								switch l := stack[i].(type) {
								case *ast.ForStmt:
									info.outer = l
								case *ast.RangeStmt:
									info.outer = l
								}
								if info.outer != nil {
									break
								}
							}
							selects[sel] = info
						}
					}
					if br, ok := n.(*ast.BranchStmt); ok && br.Tok == token.CONTINUE && br.Label == nil {
						// nearest enclosing loop / select / func literal
						for i := len(stack) - 1; i >= 0; i-- {
							stop := false
							switch x := stack[i].(type) {
							case *ast.ForStmt, *ast.RangeStmt, *ast.FuncLit, *ast.FuncDecl:
								stop = true
							case *ast.SelectStmt:
								if info := selects[x]; info != nil {
									info.conts = append(info.conts, br)
								}
								stop = true
							}
							if stop {
								break
							}
						}
					}
					stack = append(stack, n)
					return true
				})
				k := 0
				for _, info := range selects {
					if info.outer == nil || len(info.conts) == 0 {
						continue
					}
					if name, ok := labelOf[info.outer]; ok {
						info.outerName = name
						continue
					}
					if name, ok := loopLabel[info.outer]; ok {
						info.outerName = name
						continue
					}
					k++
					name := "jmloop" + strconv.Itoa(int(off(info.outer.Pos())))
					loopLabel[info.outer] = name
					info.outerName = name
				}
			}
			// Calls into sync/atomic (and sync) that yield one value and sit INSIDE a
			// larger expression - x.CompareAndSwap(k, k.next.Load()) - get a yield
			// of their own right after they return (simrt.YA), so that a client can
			// be preempted between two shared-memory operations of one statement.
			// Statement-level yields alone cannot open the window between reading
			// a node's successor and the compare-and-swap that installs it.
			isSyncCall := func(c *ast.CallExpr) bool {
				se, ok := c.Fun.(*ast.SelectorExpr)
				if !ok {
					return false
				}
				if sel, ok := info.Selections[se]; ok && sel.Obj() != nil && sel.Obj().Pkg() != nil {
					switch sel.Obj().Pkg().Path() {
					case "sync", "sync/atomic":
						return true
					}
				}
				if id, ok := se.X.(*ast.Ident); ok {
					if pn, ok := info.Uses[id].(*types.PkgName); ok {
						switch pn.Imported().Path() {
						case "sync", "sync/atomic":
							return true
						}
					}
				}
				return false
			}
			{
				var stack []ast.Node
				ast.Inspect(f, func(n ast.Node) bool {
					if n == nil {
						stack = stack[:len(stack)-1]
						return true
					}
					if c, ok := n.(*ast.CallExpr); ok && isSyncCall(c) && len(stack) > 0 && curFnBodyDepth(stack) {
						nested := false
						switch par := stack[len(stack)-1].(type) {
						case *ast.CallExpr:
							nested = par.Fun != ast.Expr(c)
						case *ast.BinaryExpr, *ast.UnaryExpr, *ast.IndexExpr, *ast.SelectorExpr, *ast.KeyValueExpr, *ast.CompositeLit, *ast.ParenExpr, *ast.StarExpr, *ast.TypeAssertExpr, *ast.SliceExpr:
							nested = true
						}
						if tv, ok := info.Types[c]; ok && nested && tv.IsValue() && tv.Type != nil {
							if _, isTuple := tv.Type.(*types.Tuple); !isTuple {
								id := nextSite
								nextSite++
								rep.Sites = append(rep.Sites, site{ID: id, File: relFile, Line: line(c.Pos()), Kind: "after-sync-call", Fn: "", Hot: true})
								rep.Yields++
								rep.HotSites++
								sp = append(sp, splice{off: off(c.Pos()), text: "simrt.YA(" + strconv.Itoa(id) + ", "})
								sp = append(sp, splice{off: off(c.End()), text: ")"})
								used = true
							}
						}
					}
					stack = append(stack, n)
					return true
				})
			}
			var visit func(n ast.Node) bool
			visit = func(n ast.Node) bool {
				switch n := n.(type) {
				case *ast.FuncDecl:
					prev := curFn
					curFn = n.Name.Name
					if n.Recv != nil && len(n.Recv.List) > 0 {
						curFn = types.ExprString(n.Recv.List[0].Type) + "." + curFn
					}
					if n.Body != nil {
						afterBrace(n.Body, "func")
						ast.Inspect(n.Body, visit)
					}
					curFn = prev
					return false
				case *ast.FuncLit:
					afterBrace(n.Body, "lit")
				case *ast.ForStmt:
					afterBrace(n.Body, "loop")
					if name, ok := loopLabel[n]; ok {
						sp = append(sp, splice{off: off(n.For), text: name + ": "})
					}
				case *ast.RangeStmt:
					afterBrace(n.Body, "loop")
					if name, ok := loopLabel[n]; ok {
						sp = append(sp, splice{off: off(n.For), text: name + ": "})
					}
					if tv, ok := info.Types[n.X]; ok && tv.Type != nil {
						if isMap(tv.Type) {
							id := nextSite
							nextSite++
							rep.Sites = append(rep.Sites, site{ID: id, File: relFile, Line: line(n.X.Pos()), Kind: "maprange", Fn: curFn})
							rep.MapRanges++
							sp = append(sp, splice{off: off(n.X.Pos()), text: "simrt.RangeMap(" + strconv.Itoa(id) + ", "})
							sp = append(sp, splice{off: off(n.X.End()), text: ")"})
							used = true
						}
						if _, ok := tv.Type.Underlying().(*types.Chan); ok {
							// for v := range ch  ->  for v := range simrt.RecvSeq(ch)
							rep.ChanRewritten++
							sp = append(sp, splice{off: off(n.X.Pos()), text: "simrt.RecvSeq("})
							sp = append(sp, splice{off: off(n.X.End()), text: ")"})
							used = true
						}
					}
				case *ast.SwitchStmt:
					noStmt[n.Body.Lbrace] = true
				case *ast.TypeSwitchStmt:
					noStmt[n.Body.Lbrace] = true
				case *ast.SelectStmt:
					noStmt[n.Body.Lbrace] = true
					if info := selects[n]; info != nil {
						// blocking select -> polling loop that hands the processor over:
						//   L: for { select { ...cases...; default: simrt.Block(); continue L }; break L }
						rep.SelectRewritten++
						lbl := "jmsel" + strconv.Itoa(off(n.Select))
						sp = append(sp, splice{off: off(n.Select), text: lbl + ": for { "})
						sp = append(sp, splice{off: off(n.Body.Rbrace), text: "; default: simrt.Block(); continue " + lbl + "; "})
						sp = append(sp, splice{off: off(n.Body.Rbrace) + 1, text: "; break " + lbl + " }"})
						for _, br := range info.conts {
							if info.outerName != "" {
								sp = append(sp, splice{off: off(br.End()), text: " " + info.outerName})
							}
						}
						used = true
					}
				case *ast.BlockStmt:
					if noStmt[n.Lbrace] {
						return true
					}
					// statements of plain blocks, function bodies, loop bodies, if/else
					stmtList(n.List, braced[n.Lbrace])
				case *ast.CaseClause:
					stmtList(n.Body, false)
				case *ast.CommClause:
					stmtList(n.Body, false)
					if n.Comm != nil {
						// the communication of this clause has just succeeded: whoever it
						// released must have marked itself runnable before we go on
						sp = append(sp, splice{off: off(n.Colon) + 1, text: " simrt.AfterOp(); "})
						used = true
						if _, isSend := n.Comm.(*ast.SendStmt); isSend {
							selectSends = append(selectSends, fmt.Sprintf("%s:%d", relFile, line(n.Pos())))
						}
					}
				case *ast.GoStmt:
					// go f(a, b)  ->  simrt.Go2(f, a, b): the new goroutine becomes a
					// simulated task; arguments are still evaluated at the go statement
					call := n.Call
					nargs := len(call.Args)
					ok := nargs <= 4 && !call.Ellipsis.IsValid()
					if ok {
						if tv, found := info.Types[call.Fun]; found {
							if sig, isSig := tv.Type.Underlying().(*types.Signature); isSig {
								if sig.Results().Len() > 0 || sig.Variadic() {
									ok = false
								}
							} else {
								ok = false // conversion or builtin
							}
						} else {
							ok = false
						}
					}
					if !ok {
						rep.GoStmts = append(rep.GoStmts, fmt.Sprintf("%s:%d", relFile, line(n.Pos())))
						break
					}
					rep.GoRewritten++
					name := "simrt.Go("
					if nargs > 0 {
						name = "simrt.Go" + strconv.Itoa(nargs) + "("
					}
					sp = append(sp, splice{off: off(n.Go), end: off(n.Go) + 2, text: name})
					// drop the blank after "go" is not needed: "simrt.Go( f" is fine
					if nargs == 0 {
						sp = append(sp, splice{off: off(call.Lparen), end: off(call.Rparen), text: ""})
					} else {
						sp = append(sp, splice{off: off(call.Lparen), end: off(call.Lparen) + 1, text: ", "})
					}
					used = true
				case *ast.AssignStmt:
					// x := make(chan T)  /  x = make(chan T): remember which variable
					// holds an unbuffered channel
					for i, rhs := range n.Rhs {
						if isUnbufferedMake(rhs, info) && i < len(n.Lhs) {
							if id, ok := n.Lhs[i].(*ast.Ident); ok {
								if obj := info.Defs[id]; obj != nil {
									unbufObjs[obj] = true
									knownMakes[rhs.Pos()] = true
								} else if obj := info.Uses[id]; obj != nil {
									unbufObjs[obj] = true
									knownMakes[rhs.Pos()] = true
								}
							}
						}
					}
				case *ast.ValueSpec:
					for i, rhs := range n.Values {
						if isUnbufferedMake(rhs, info) && i < len(n.Names) {
							if obj := info.Defs[n.Names[i]]; obj != nil {
								unbufObjs[obj] = true
								knownMakes[rhs.Pos()] = true
							}
						}
					}
				case *ast.CallExpr:
					if id, ok := n.Fun.(*ast.Ident); ok && id.Name == "close" && len(n.Args) == 1 {
						if _, isBuiltin := info.Uses[id].(*types.Builtin); isBuiltin {
							rep.ChanRewritten++
							sp = append(sp, splice{off: off(id.Pos()), end: off(id.End()), text: "simrt.Close"})
							used = true
						}
					}
					if isUnbufferedMake(n, info) {
						unbufferedMakes = append(unbufferedMakes, fmt.Sprintf("%s:%d", relFile, line(n.Pos())))
						allMakes = append(allMakes, n.Pos())
					}
				case *ast.SendStmt:
					sends = append(sends, fmt.Sprintf("%s:%d", relFile, line(n.Pos())))
					if id, ok := n.Chan.(*ast.Ident); ok && info.Uses[id] != nil {
						if v, isVar := info.Uses[id].(*types.Var); isVar && !v.IsField() && !paramObjs[v] {
							sendObjs[info.Uses[id]] = true
						} else {
							unknownSend = true
						}
					} else {
						unknownSend = true
					}
					if inSelect[n] {
						break
					}
					rep.ChanRewritten++
					sp = append(sp, splice{off: off(n.Chan.Pos()), text: "simrt.Send("})
					sp = append(sp, splice{off: off(n.Arrow), end: off(n.Arrow) + 2, text: ","})
					sp = append(sp, splice{off: off(n.Value.End()), text: ")"})
					used = true
				case *ast.UnaryExpr:
					if n.Op == token.ARROW && !inSelect[n] {
						rep.ChanRewritten++
						name := "simrt.Recv("
						if commaOK[n] {
							name = "simrt.Recv2("
						}
						sp = append(sp, splice{off: off(n.OpPos), end: off(n.OpPos) + 2, text: name})
						sp = append(sp, splice{off: off(n.X.End()), text: ")"})
						used = true
					}
				case *ast.SelectorExpr:
					if sel, ok := info.Selections[n]; ok && sel.Obj() != nil && sel.Obj().Pkg() != nil && sel.Obj().Pkg().Path() == "reflect" {
						switch sel.Obj().Name() {
						case "MapRange", "MapKeys":
							rep.ReflectMaps = append(rep.ReflectMaps, fmt.Sprintf("%s:%d reflect.%s", relFile, line(n.Pos()), sel.Obj().Name()))
						}
					}
				}
				return true
			}
			for _, decl := range f.Decls {
				ast.Inspect(decl, visit)
			}
			// import substitution
			for _, is := range f.Imports {
				p, _ := strconv.Unquote(is.Path.Value)
				if sh, ok := shimFor[p]; ok {
					name := ""
					if is.Name == nil {
						name = filepath.Base(p)
						if p == "math/rand/v2" {
							name = "rand"
						}
						name += " "
					}
					sp = append(sp, splice{off: off(is.Path.Pos()), end: off(is.Path.End()), text: name + strconv.Quote(simrtPath+"/"+sh)})
					rep.Shimmed = append(rep.Shimmed, relFile+": "+p)
				} else if unshimmed[p] {
					rep.Unshimmed = append(rep.Unshimmed, relFile+": "+p)
				}
			}
			if !used && len(sp) == 0 {
				continue
			}
			if used {
				// same-line import right after the package clause
				sp = append(sp, splice{off: off(f.Name.End()), text: "; import simrt " + strconv.Quote(simrtPath)})
			}
			sort.SliceStable(sp, func(a, b int) bool { return sp[a].off < sp[b].off })
			var b strings.Builder
			last := 0
			for _, s := range sp {
				if s.off < last {
					fail(fmt.Sprintf("overlapping splices in %s", relFile))
				}
				b.Write(src[last:s.off])
				b.WriteString(s.text)
				last = s.off
				if s.end > s.off {
					last = s.end
				}
			}
			b.Write(src[last:])
			if err := os.WriteFile(names[i], []byte(b.String()), 0o644); err != nil {
				fail(err.Error())
			}
		}
	}
	if len(unbufferedMakes) > 0 && len(selectSends) > 0 {
		// Simple sends and receives really block (after handing the baton on), so
		// they meet each other and the polling selects. What cannot be modelled
		// is a SEND CASE of a select meeting a receive case of another select on
		// an unbuffered channel: both only poll.
		rep.ChanOps = append(rep.ChanOps, fmt.Sprintf("select with send case(s) at %v and unbuffered channel(s) created at %v: two polling selects cannot meet on an unbuffered channel", selectSends, unbufferedMakes))
	}
	_, _, _, _, _, _ = unbufObjs, sendObjs, knownMakes, allMakes, unknownSend, sends
	// generated site count
	var hot []string
	for _, st := range rep.Sites {
		if st.Hot {
			hot = append(hot, strconv.Itoa(st.ID))
		}
	}
	gen := fmt.Sprintf("package simrt\n\nfunc init() {\n\tNumSites = %d\n\tHotSites = make([]bool, %d)\n\tHotSites[0] = true\n\tfor _, i := range []int{%s} {\n\t\tHotSites[i] = true\n\t}\n}\n", nextSite, nextSite+1, strings.Join(hot, ", "))
	if err := os.WriteFile(filepath.Join(root, "internal", "simrt", "zsites.go"), []byte(gen), 0o644); err != nil {
		fail(err.Error())
	}
	if *out != "" {
		js, _ := json.Marshal(rep)
		if err := os.WriteFile(*out, js, 0o644); err != nil {
			fail(err.Error())
		}
	}
	fmt.Printf("instrument: %d packages, %d yield sites, %d map ranges, %d go statements, shims %v\n", len(rep.Packages), rep.Yields, rep.MapRanges, len(rep.GoStmts), rep.Shimmed)
}

func isUnbufferedMake(e ast.Expr, info *types.Info) bool {
	c, ok := e.(*ast.CallExpr)
	if !ok || len(c.Args) != 1 {
		return false
	}
	id, ok := c.Fun.(*ast.Ident)
	if !ok || id.Name != "make" {
		return false
	}
	tv, ok := info.Types[c.Args[0]]
	if !ok || !tv.IsType() {
		return false
	}
	_, isChan := tv.Type.Underlying().(*types.Chan)
	return isChan
}

func isErrorType(t types.Type) bool {
	if n, ok := t.(*types.Named); ok && n.Obj().Pkg() == nil && n.Obj().Name() == "error" {
		return true
	}
	return types.Implements(t, types.Universe.Lookup("error").Type().Underlying().(*types.Interface))
}

func isMap(t types.Type) bool {
	switch u := t.Underlying().(type) {
	case *types.Map:
		return true
	case *types.Interface:
		// type parameter: core type
		if tp, ok := t.(*types.TypeParam); ok {
			_ = tp
			all := true
			n := 0
			u.NumEmbeddeds()
			for i := 0; i < u.NumEmbeddeds(); i++ {
				if un, ok := u.EmbeddedType(i).(*types.Union); ok {
					for j := 0; j < un.Len(); j++ {
						n++
						if _, ok := un.Term(j).Type().Underlying().(*types.Map); !ok {
							all = false
						}
					}
				}
			}
			return all && n > 0
		}
	}
	return false
}

func ignoredByBuildTag(f *ast.File) bool {
	for _, cg := range f.Comments {
		if cg.Pos() > f.Package {
			break
		}
		for _, c := range cg.List {
			if strings.HasPrefix(c.Text, "//go:build ") {
				expr := strings.TrimPrefix(c.Text, "//go:build ")
				if strings.Contains(expr, "ignore") || expr == "windows" || expr == "js" {
					return true
				}
			}
		}
	}
	return false
}

func modulePath(gomod string) string {
	b, err := os.ReadFile(gomod)
	if err != nil {
		return ""
	}
	for _, l := range strings.Split(string(b), "\n") {
		l = strings.TrimSpace(l)
		if strings.HasPrefix(l, "module ") {
			return strings.Trim(strings.TrimSpace(strings.TrimPrefix(l, "module ")), "\"")
		}
	}
	return ""
}

func fail(msg string) {
	fmt.Fprintln(os.Stderr, "instrument: "+msg)
	os.Exit(2)
}
