// Package maphash (shim for hash/maphash): seeds come from the simulator's
// stream instead of the runtime's per-process randomness, so which keys
// collide is the same in every process and a failing run replays.
package maphash

import (
	"fmt"

	"github.com/woodsbury/jmespath/internal/simrt"
)

type Seed struct{ s uint64 }

func MakeSeed() Seed { return Seed{s: simrt.Rand64() | 1} }

func mix(h, v uint64) uint64 {
	h ^= v
	h *= 0x9e3779b97f4a7c15
	h ^= h >> 29
	h *= 0xbf58476d1ce4e5b9
	return h ^ (h >> 32)
}

func Bytes(seed Seed, b []byte) uint64 {
	if seed.s == 0 {
		panic("maphash: use of uninitialized Seed")
	}
	h := seed.s ^ 0xcbf29ce484222325
	for _, c := range b {
		h = (h ^ uint64(c)) * 0x100000001b3
	}
	return mix(h, uint64(len(b)))
}

func String(seed Seed, s string) uint64 {
	if seed.s == 0 {
		panic("maphash: use of uninitialized Seed")
	}
	h := seed.s ^ 0xcbf29ce484222325
	for i := 0; i < len(s); i++ {
		h = (h ^ uint64(s[i])) * 0x100000001b3
	}
	return mix(h, uint64(len(s)))
}

func Comparable[T comparable](seed Seed, v T) uint64 {
	return String(seed, fmt.Sprintf("%T:%#v", v, v))
}

type Hash struct {
	seed Seed
	buf  []byte
}

func (h *Hash) init() {
	if h.seed.s == 0 {
		h.seed = MakeSeed()
	}
}
func (h *Hash) Write(b []byte) (int, error) {
	h.init()
	h.buf = append(h.buf, b...)
	return len(b), nil
}
func (h *Hash) WriteString(s string) (int, error) {
	h.init()
	h.buf = append(h.buf, s...)
	return len(s), nil
}
func (h *Hash) WriteByte(b byte) error { h.init(); h.buf = append(h.buf, b); return nil }
func (h *Hash) Seed() Seed             { h.init(); return h.seed }
func (h *Hash) SetSeed(seed Seed)      { h.seed = seed; h.buf = h.buf[:0] }
func (h *Hash) Reset()                 { h.init(); h.buf = h.buf[:0] }
func (h *Hash) Sum64() uint64          { h.init(); return Bytes(h.seed, h.buf) }
func (h *Hash) Size() int              { return 8 }
func (h *Hash) BlockSize() int         { return 128 }
func (h *Hash) Sum(b []byte) []byte {
	x := h.Sum64()
	return append(b, byte(x>>56), byte(x>>48), byte(x>>40), byte(x>>32), byte(x>>24), byte(x>>16), byte(x>>8), byte(x))
}

func WriteComparable[T comparable](h *Hash, x T) { h.WriteString(fmt.Sprintf("%T:%#v", x, x)) }
