// Package simrt is the runtime of the jmespath deterministic simulator. It is
// copied into a scratch copy of the repository (as internal/simrt) together
// with source-level splices that call Yield at every function entry, loop
// head and statement, and RangeMap at every range over a map.
//
// Scheduler: every simulated client ("task") is a real goroutine; exactly one
// runs at a time. The hand-off uses raw read/write system calls on per-task
// pipes from //go:norace functions: the hardware is ordered, but the race
// detector sees NO happens-before edge between tasks, so in a -race build
// every pair of conflicting accesses by two tasks is reported whatever the
// interleaving was. Which task runs next is decided only by the schedule
// (explicit switch list or a splitmix64 stream), never by the Go scheduler.
package simrt

import (
	"os"
	"runtime"
	"sync"
	"sync/atomic"
	"syscall"
	"unsafe"
)

// NumSites and HotSites are set by the generated file zsites.go in the
// instrumented copy. A site is hot when the statement before or after it
// touches a package-level variable, sync or sync/atomic; site 0 (the shims'
// own yields at lock, pool and channel operations) is always hot.
var (
	NumSites  = 0
	HotSites  []bool
	hotHits   uint64 // hot yields executed by task sch.First in this run
	HotYields uint64
)

const (
	MaxTasks    = 256
	maxSwitches = 1 << 14
)

// Strategy kinds.
const (
	StratExplicit   = iota // follow Switches; default run-to-completion in task order
	StratWalk              // random walk: at each yield switch with probability 1/WalkDen
	StratPCT               // random priorities, Depth-1 priority change points
	StratHotWalk           // random walk that switches with probability 1/HotDen at yields next to shared-state accesses, 1/WalkDen elsewhere
	StratHotPreempt        // run task First until its HotK-th hot yield, run the others to completion, resume
)

// Switch is one scheduling decision that differs from "keep running".
type Switch struct {
	Step   uint64 `json:"s"`  // global yield index at which the decision was taken (informational)
	TS     uint64 `json:"ts"` // index of this yield among the yields of task From: what replay matches on
	From   int32  `json:"f"`  // task that was running
	Site   int32  `json:"at"` // yield site (-1: task finished, -2: blocked on a shimmed lock)
	To     int32  `json:"to"` // task that runs next
	Finish bool   `json:"fin,omitempty"`
}

// Schedule fully determines an interleaving.
type Schedule struct {
	Kind     int      `json:"kind"`
	Seed     uint64   `json:"seed,omitempty"`
	WalkDen  uint64   `json:"walk_den,omitempty"`
	Depth    int      `json:"depth,omitempty"`
	Horizon  uint64   `json:"horizon,omitempty"` // PCT: change points are drawn in [0,Horizon)
	HotDen   uint64   `json:"hot_den,omitempty"`
	HotK     uint64   `json:"hot_k,omitempty"`
	First    int      `json:"first"` // task that starts
	Switches []Switch `json:"switches,omitempty"`
	GCSteps  []uint64 `json:"gc,omitempty"` // forced runtime.GC() at these global steps (fault F6)
}

type Result struct {
	Steps     uint64   // yields executed while the simulation was active
	TaskSteps []uint64 // per task
	Digest    uint64   // hash of the (task, site) sequence
	MapDigest uint64   // hash of the (site, permutation) sequence served by RangeMap
	Switches  []Switch // every decision taken (explicit form of the schedule)
	Parked    [][2]int32
	NoProg    bool
	Deadlock  bool
	GCs       int
	MapServed uint64 // RangeMap calls over >= 2 keys
	MapReord  uint64 // ... of which served in non-sorted order (fault F2)
	Blocks    uint64 // Block() calls (shimmed lock contention)
	HotHits   uint64 // hot yields of task First (StratHotPreempt)
}

type task struct {
	rfd, wfd   int
	state      int32 // 0 idle, 1 runnable, 2 finished
	parkedSite int32
	steps      uint64
	prio       int64
	policy     Policy
	ranges     uint64
	gid        uint64 // goroutine id (to read its state off the runtime's dump)
	blockedOn  uintptr
	blockDir   int8
	fn         func()
}

var (
	active   bool
	cur      = -1
	ntasks   int
	nstatic  int // tasks created by the harness (the rest are library goroutines)
	tasks    [MaxTasks]task
	ctrl     task // controller's pipe + policy
	gstep    uint64
	maxSteps uint64
	digest   uint64
	sch      Schedule
	schPos   int
	schCur   [MaxTasks]int
	rng      uint64
	switches [maxSwitches]Switch
	nsw      int
	pairs    [maxSwitches][2]int32
	gcPos    int
	gcCount  int
	noProg   bool
	deadlock bool
	blockRun uint64
	blocks   uint64
	pctChg   [8]uint64
	pctN     int
	wg       sync.WaitGroup
	inited   bool

	// SiteHits counts yields per site over the life of the process.
	SiteHits []uint32
	// SoloSteps counts yields executed while no simulation is active (reference
	// and solo phases); reset by the harness.
	SoloSteps uint64
	Counting  bool
)

//go:norace
func splitmix(x *uint64) uint64 {
	*x += 0x9e3779b97f4a7c15
	z := *x
	z = (z ^ (z >> 30)) * 0xbf58476d1ce4e5b9
	z = (z ^ (z >> 27)) * 0x94d049bb133111eb
	return z ^ (z >> 31)
}

//go:norace
func mix(h, v uint64) uint64 {
	h ^= v + 0x9e3779b97f4a7c15 + (h << 6) + (h >> 2)
	h *= 0xff51afd7ed558ccd
	return h ^ (h >> 32)
}

//go:norace
func rawWrite(fd int) {
	var b [1]byte
	for {
		n, _, e := syscall.Syscall(syscall.SYS_WRITE, uintptr(fd), uintptr(unsafe.Pointer(&b[0])), 1)
		if n == 1 {
			return
		}
		if e == syscall.EINTR || e == syscall.EAGAIN {
			continue
		}
		os.Stderr.WriteString("simrt: pipe write failed\n")
		os.Exit(2)
	}
}

//go:norace
func rawRead(fd int) {
	var b [1]byte
	for {
		n, _, e := syscall.Syscall(syscall.SYS_READ, uintptr(fd), uintptr(unsafe.Pointer(&b[0])), 1)
		if n == 1 {
			return
		}
		if e == syscall.EINTR || e == syscall.EAGAIN {
			continue
		}
		os.Stderr.WriteString("simrt: pipe read failed\n")
		os.Exit(2)
	}
}

func initPipes() {
	if inited {
		return
	}
	inited = true
	mk := func(t *task) {
		var p [2]int
		if err := syscall.Pipe2(p[:], syscall.O_CLOEXEC); err != nil {
			os.Stderr.WriteString("simrt: pipe2: " + err.Error() + "\n")
			os.Exit(2)
		}
		t.rfd, t.wfd = p[0], p[1]
	}
	for i := range tasks {
		mk(&tasks[i])
	}
	mk(&ctrl)
	if len(SiteHits) < NumSites+1 {
		SiteHits = make([]uint32, NumSites+1)
	}
}

// YA ("yield after") wraps a sync/atomic call that sits inside a larger
// expression: the operation has returned, the enclosing expression has not
// used its value yet, and the client may be preempted in between.
//
//go:norace
func YA[T any](site int, v T) T {
	Yield(site)
	return v
}

// Yield is called by spliced repository code. Outside a simulation it only
// counts.
//
//go:norace
func Yield(site int) {
	if !active {
		if Counting {
			SoloSteps++
		}
		return
	}
	step := gstep
	gstep++
	t := cur
	digest = mix(digest, uint64(t+1)<<32|uint64(uint32(site)))
	if site < len(SiteHits) {
		SiteHits[site]++
	}
	if site < len(HotSites) && HotSites[site] {
		HotYields++
	}
	if t < 0 {
		return
	}
	blockRun = 0
	if gcPos < len(sch.GCSteps) && sch.GCSteps[gcPos] <= step {
		for gcPos < len(sch.GCSteps) && sch.GCSteps[gcPos] <= step {
			gcPos++
		}
		gcCount++
		runtime.GC()
	}
	if step >= maxSteps {
		if !noProg {
			noProg = true
			os.Stdout.WriteString("SIM-NOPROGRESS\n")
			os.Exit(67)
		}
		return
	}
	nx := decide(step, t, int32(site), false)
	if nx == t {
		tasks[t].steps++
		return
	}
	switchTo(step, t, nx, int32(site), false)
	tasks[t].steps++
}

// Block is called by the shims when the running task cannot proceed (a
// shimmed lock is held by a parked task). It always hands the processor to
// another runnable task if there is one.
//
//go:norace
func Block() {
	if !active || cur < 0 {
		runtime.Gosched()
		return
	}
	t := cur
	blocks++
	blockRun++
	if blockRun > 64 {
		// every runnable task is spinning on a shimmed lock and nobody has
		// executed a yield in between: nothing can make progress
		os.Stdout.WriteString("SIM-DEADLOCK\n")
		os.Exit(68)
	}
	// round robin over the other runnable tasks
	nx := -1
	for d := 1; d < ntasks; d++ {
		c := (t + d) % ntasks
		if tasks[c].state == 1 {
			nx = c
			break
		}
	}
	if nx < 0 {
		os.Stdout.WriteString("SIM-DEADLOCK\n")
		os.Exit(68)
	}
	switchTo(gstep, t, nx, -2, false)
}

//go:norace
func runnable(i int) bool { return i >= 0 && i < ntasks && tasks[i].state == 1 }

//go:norace
func lowestRunnable(except int) int {
	for i := 0; i < ntasks; i++ {
		if i != except && tasks[i].state == 1 {
			return i
		}
	}
	return -1
}

//go:norace
func countRunnable(except int) int {
	n := 0
	for i := 0; i < ntasks; i++ {
		if i != except && tasks[i].state == 1 {
			n++
		}
	}
	return n
}

//go:norace
func nthRunnable(except int, n int) int {
	for i := 0; i < ntasks; i++ {
		if i != except && tasks[i].state == 1 {
			if n == 0 {
				return i
			}
			n--
		}
	}
	return -1
}

// decide returns the task to run after this yield (t to continue). finish
// is true when t has just finished and cannot continue (then -1 means: no task
// left, wake the controller).
//
//go:norace
func decide(step uint64, t int, site int32, finish bool) int {
	switch sch.Kind {
	case StratExplicit:
		// entries are matched on (task, task-local yield index), so that
		// dropping other tasks or operations while minimising does not move
		// the preemption points of the tasks that remain
		ts := tasks[t].steps
		i := schCur[t]
		for i < len(sch.Switches) {
			en := &sch.Switches[i]
			if int(en.From) != t {
				i++
				continue
			}
			if en.Finish {
				if finish {
					break
				}
				break // a future entry: wait
			}
			if finish || en.TS < ts {
				i++ // stale
				continue
			}
			break
		}
		schCur[t] = i
		if i < len(sch.Switches) {
			en := &sch.Switches[i]
			if int(en.From) == t && en.Finish == finish && (finish || en.TS == ts) {
				schCur[t] = i + 1
				to := int(en.To)
				if runnable(to) && to != t {
					return to
				}
			}
		}
		if finish {
			return lowestRunnable(t)
		}
		return t
	case StratWalk:
		if finish {
			n := countRunnable(t)
			if n == 0 {
				return -1
			}
			return nthRunnable(t, int(splitmix(&rng)%uint64(n)))
		}
		den := sch.WalkDen
		if den == 0 {
			den = 16
		}
		if splitmix(&rng)%den != 0 {
			return t
		}
		n := countRunnable(t)
		if n == 0 {
			return t
		}
		return nthRunnable(t, int(splitmix(&rng)%uint64(n)))
	case StratHotWalk:
		if finish {
			n := countRunnable(t)
			if n == 0 {
				return -1
			}
			return nthRunnable(t, int(splitmix(&rng)%uint64(n)))
		}
		den := sch.WalkDen
		if den == 0 {
			den = 1024
		}
		if int(site) < len(HotSites) && HotSites[site] {
			den = sch.HotDen
			if den == 0 {
				den = 2
			}
		}
		if splitmix(&rng)%den != 0 {
			return t
		}
		n := countRunnable(t)
		if n == 0 {
			return t
		}
		return nthRunnable(t, int(splitmix(&rng)%uint64(n)))
	case StratHotPreempt:
		if finish {
			return lowestRunnable(t)
		}
		if t == sch.First && int(site) < len(HotSites) && HotSites[site] {
			hotHits++
			if hotHits == sch.HotK+1 {
				if nx := lowestRunnable(t); nx >= 0 {
					return nx
				}
			}
		}
		return t
	case StratPCT:
		if !finish {
			for i := 0; i < pctN; i++ {
				if pctChg[i] == step {
					// priority change point: the running task drops below everyone
					tasks[t].prio = -int64(i) - 1
				}
			}
		}
		best := -1
		for i := 0; i < ntasks; i++ {
			if tasks[i].state != 1 || (finish && i == t) {
				continue
			}
			if best < 0 || tasks[i].prio > tasks[best].prio {
				best = i
			}
		}
		if best < 0 {
			if finish {
				return -1
			}
			return t
		}
		return best
	}
	if finish {
		return lowestRunnable(t)
	}
	return t
}

//go:norace
func record(step uint64, from int, site int32, to int, finish bool) {
	if nsw < maxSwitches {
		var ts uint64
		if from >= 0 {
			ts = tasks[from].steps
		}
		switches[nsw] = Switch{Step: step, TS: ts, From: int32(from), Site: site, To: int32(to), Finish: finish}
		resume := int32(-1)
		if to >= 0 {
			resume = tasks[to].parkedSite
		}
		pairs[nsw] = [2]int32{site, resume}
		nsw++
	}
}

//go:norace
func switchTo(step uint64, me, nx int, site int32, finish bool) {
	tasks[me].parkedSite = site
	record(step, me, site, nx, finish)
	cur = nx
	rawWrite(tasks[nx].wfd)
	rawRead(tasks[me].rfd)
	// whoever woke us set cur = me; if it is on its way into a real block,
	// wait until it is parked there
	settleIfNeeded()
}

func taskMain(i int) {
	setGID(i)
	park0(i)
	settleIfNeeded()
	// deferred, so that runtime.Goexit in a library goroutine still hands the
	// baton on (a panic keeps propagating and ends the process, as it would
	// for a user)
	defer finish(i)
	tasks[i].fn()
}

//go:norace
func park0(i int) { rawRead(tasks[i].rfd) }

//go:norace
func setGID(i int) { tasks[i].gid = curGID() }

// Go replaces a `go` statement of repository code: the new goroutine becomes
// one more simulated task, so that the schedule also decides when library
// goroutines run. Outside a simulation it is a plain go statement.
func Go(fn func()) {
	i := spawn(fn)
	if i < 0 {
		// outside a simulation (reference phase, oracle process): a real
		// goroutine. It must be gone, or parked for good, before the next
		// simulation starts, because its yields would be taken for the running
		// task's (see quiesceReal).
		realLive.Add(1)
		go func() {
			gid := curGID()
			realMu.Lock()
			realGIDs[gid] = true
			realMu.Unlock()
			defer func() {
				realMu.Lock()
				delete(realGIDs, gid)
				realMu.Unlock()
				realLive.Add(-1)
			}()
			fn()
		}()
		return
	}
	wg.Add(1)
	go taskMain(i)
	Yield(0)
}

func Go1[A any](f func(A), a A)                       { Go(func() { f(a) }) }
func Go2[A, B any](f func(A, B), a A, b B)            { Go(func() { f(a, b) }) }
func Go3[A, B, C any](f func(A, B, C), a A, b B, c C) { Go(func() { f(a, b, c) }) }
func Go4[A, B, C, D any](f func(A, B, C, D), a A, b B, c C, d D) {
	Go(func() { f(a, b, c, d) })
}

var (
	realLive atomic.Int64
	realMu   sync.Mutex
	realGIDs = map[uint64]bool{}
)

// quiesceReal waits until no real library goroutine (started outside a
// simulation) can run any more: each has exited or is parked in a channel
// operation.
func quiesceReal() {
	for spin := 0; realLive.Load() > 0; spin++ {
		buf := make([]byte, 1<<18)
		n := runtime.Stack(buf, true)
		dump := buf[:n]
		busy := false
		realMu.Lock()
		for gid := range realGIDs {
			if !parkedInChanOp(dump, gid) {
				busy = true
			}
		}
		realMu.Unlock()
		if !busy {
			return
		}
		if spin > 200000 {
			os.Stdout.WriteString("SIM-REAL-GOROUTINES-STILL-RUNNING\n")
			os.Exit(2)
		}
		runtime.Gosched()
	}
}

// Spawned counts library goroutines turned into tasks, Leaked those that
// were still blocked when their run ended.
var Spawned, Leaked uint64

//go:norace
func spawn(fn func()) int {
	if !active || cur < 0 {
		return -1
	}
	// reuse the slot of a finished library goroutine (lowest first: deterministic)
	i := -1
	for k := nstatic; k < ntasks; k++ {
		if tasks[k].state == 2 {
			i = k
			break
		}
	}
	if i < 0 {
		if ntasks >= MaxTasks {
			os.Stdout.WriteString("SIM-TOO-MANY-GOROUTINES\n")
			os.Exit(2)
		}
		i = ntasks
		ntasks++
	}
	Spawned++
	tasks[i].state = 1
	tasks[i].parkedSite = -1
	tasks[i].steps = 0
	tasks[i].fn = fn
	tasks[i].policy = tasks[cur].policy
	tasks[i].ranges = 0
	tasks[i].prio = int64(splitmix(&rng)>>1) | 1<<40
	// schCur[i] is NOT reset: a reused slot continues in the explicit schedule
	// after the entries of its previous incarnation
	return i
}

//go:norace
func finish(i int) {
	tasks[i].state = 2
	nx := decide(gstep, i, -1, true)
	record(gstep, i, -1, nx, true)
	wg.Done()
	if nx < 0 {
		cur = -1
		rawWrite(ctrl.wfd)
		return
	}
	cur = nx
	rawWrite(tasks[nx].wfd)
}

// Run executes fns as simulated tasks under schedule s and returns when all
// have finished. It must be called from the controller (the goroutine that is
// not a task). maxYields bounds the run (watchdog for lack of progress).
//
//go:norace
func Run(fns []func(), s Schedule, maxYields uint64) Result {
	initPipes()
	quiesceReal()
	if len(fns) == 0 || len(fns) > MaxTasks {
		panic("simrt.Run: bad task count")
	}
	ntasks = len(fns)
	nstatic = ntasks
	for i := 0; i < ntasks; i++ {
		tasks[i].state = 1
		tasks[i].parkedSite = -1
		tasks[i].steps = 0
		tasks[i].fn = fns[i]
		tasks[i].prio = 0
	}
	sch = s
	schPos, gcPos, gcCount, nsw = 0, 0, 0, 0
	schCur = [MaxTasks]int{}
	rng = s.Seed ^ 0x6a09e667f3bcc909
	FaultSeed(s.Seed)
	gstep, digest = 0, 0
	hotHits = 0
	mapDigest, mapServed, mapReord = 0, 0, 0
	maxSteps = maxYields
	noProg, deadlock, blockRun, blocks = false, false, 0, 0
	if s.Kind == StratPCT {
		// random distinct priorities, Depth-1 change points in [0,Horizon)
		for i := 0; i < ntasks; i++ {
			tasks[i].prio = int64(splitmix(&rng)>>1) | 1<<40
		}
		pctN = s.Depth - 1
		if pctN < 0 {
			pctN = 0
		}
		if pctN > len(pctChg) {
			pctN = len(pctChg)
		}
		h := s.Horizon
		if h == 0 {
			h = 256
		}
		for i := 0; i < pctN; i++ {
			pctChg[i] = splitmix(&rng) % h
		}
	}
	first := s.First
	if s.Kind == StratPCT {
		first = 0
		for i := 1; i < ntasks; i++ {
			if tasks[i].prio > tasks[first].prio {
				first = i
			}
		}
	} else if s.Kind == StratWalk || s.Kind == StratHotWalk {
		first = int(splitmix(&rng) % uint64(ntasks))
	}
	if first < 0 || first >= ntasks {
		first = 0
	}
	wg.Add(ntasks)
	for i := 0; i < ntasks; i++ {
		go taskMain(i)
	}
	active = true
	record(0, -1, -1, first, false)
	cur = first
	rawWrite(tasks[first].wfd)
	rawRead(ctrl.rfd)
	settle()
	for i := 0; i < ntasks; i++ {
		if tasks[i].state != 3 {
			continue
		}
		if i < nstatic {
			// a client's call never returns: everybody else is done
			os.Stdout.WriteString("SIM-DEADLOCK\n")
			os.Exit(68)
		}
		// a library goroutine left blocked for ever (leak): give up its slot
		tasks[i].state = 4
		Leaked++
		wg.Done()
	}
	active = false
	cur = -1
	wg.Wait()
	res := Result{
		Steps:     gstep,
		Digest:    digest,
		MapDigest: mapDigest,
		NoProg:    noProg,
		Deadlock:  deadlock,
		GCs:       gcCount,
		MapServed: mapServed,
		MapReord:  mapReord,
		Blocks:    blocks,
		HotHits:   hotHits,
	}
	res.TaskSteps = make([]uint64, ntasks)
	for i := 0; i < ntasks; i++ {
		res.TaskSteps[i] = tasks[i].steps
		tasks[i].fn = nil
	}
	res.Switches = make([]Switch, nsw)
	res.Parked = make([][2]int32, nsw)
	for i := 0; i < nsw; i++ {
		res.Switches[i] = switches[i]
		res.Parked[i] = pairs[i]
	}
	return res
}

// Cur returns the running task (-1: controller / no simulation).
//
//go:norace
func Cur() int { return cur }

// Active reports whether a simulation is in progress.
//
//go:norace
func Active() bool { return active }

// ResetSolo zeroes the solo yield counter and enables counting.
//
//go:norace
func ResetSolo() { SoloSteps = 0; Counting = true }

//go:norace
func Solo() uint64 { return SoloSteps }

// MapCounters returns (served, reordered) RangeMap counts since the last
// ResetMapCounters; usable outside Run (single task histories).
//
//go:norace
func MapCounters() (uint64, uint64, uint64) { return mapServed, mapReord, mapDigest }

//go:norace
func ResetMapCounters() { mapServed, mapReord, mapDigest = 0, 0, 0 }

// ---------------------------------------------------------------------------
// Fault/randomness stream for the shims (sync.Pool drops, math/rand, clock
// jumps). It is derived from the schedule seed, so a run replays exactly.
// ---------------------------------------------------------------------------

var (
	frng       uint64 = 0x51ed270b2f6a9c31
	clockBase  uint64 = 1_700_000_000_000_000_000 // ns
	clockSkew  uint64
	PoolDrops  uint64
	PoolGets   uint64
	PoolPuts   uint64
	RandDraws  uint64
	ClockReads uint64
)

// FaultSeed re-seeds the shim stream (called by the harness per run).
//
//go:norace
func FaultSeed(s uint64) { frng = s ^ 0x51ed270b2f6a9c31; clockSkew = 0 }

// Rand64 draws from the shim stream.
//
//go:norace
func Rand64() uint64 { RandDraws++; return splitmix(&frng) }

// Chance reports true with probability 1/den.
//
//go:norace
func Chance(den uint64) bool { return splitmix(&frng)%den == 0 }

// NowNanos is the simulated clock: it advances with every yield executed and
// may jump (fault) by up to an hour.
//
//go:norace
func NowNanos() int64 {
	ClockReads++
	if splitmix(&frng)%64 == 0 {
		clockSkew += splitmix(&frng) % 3_600_000_000_000
	}
	return int64(clockBase + clockSkew + (gstep+SoloSteps)*1000)
}

// Advance moves the simulated clock (time.Sleep shim).
//
//go:norace
func Advance(ns int64) {
	if ns > 0 {
		clockSkew += uint64(ns)
	}
}

//go:norace
func ShimCounters() (poolGets, poolDrops, randDraws, clockReads uint64) {
	return PoolGets, PoolDrops, RandDraws, ClockReads
}
