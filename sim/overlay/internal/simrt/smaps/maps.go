// Package maps (shim): iteration goes through the simulator's map-order seam.
package maps

import (
	"iter"
	"maps"

	"github.com/woodsbury/jmespath/internal/simrt"
)

func All[Map ~map[K]V, K comparable, V any](m Map) iter.Seq2[K, V] { return simrt.RangeMap(0, m) }

func Keys[Map ~map[K]V, K comparable, V any](m Map) iter.Seq[K] {
	return func(yield func(K) bool) {
		for k := range simrt.RangeMap(0, m) {
			if !yield(k) {
				return
			}
		}
	}
}

func Values[Map ~map[K]V, K comparable, V any](m Map) iter.Seq[V] {
	return func(yield func(V) bool) {
		for _, v := range simrt.RangeMap(0, m) {
			if !yield(v) {
				return
			}
		}
	}
}

func Insert[Map ~map[K]V, K comparable, V any](m Map, seq iter.Seq2[K, V]) { maps.Insert(m, seq) }
func Collect[K comparable, V any](seq iter.Seq2[K, V]) map[K]V             { return maps.Collect(seq) }
func Clone[M ~map[K]V, K comparable, V any](m M) M                         { return maps.Clone(m) }
func Copy[M1 ~map[K]V, M2 ~map[K]V, K comparable, V any](dst M1, src M2)   { maps.Copy(dst, src) }
func Equal[M1, M2 ~map[K]V, K, V comparable](m1 M1, m2 M2) bool            { return maps.Equal(m1, m2) }
func EqualFunc[M1 ~map[K]V1, M2 ~map[K]V2, K comparable, V1, V2 any](m1 M1, m2 M2, eq func(V1, V2) bool) bool {
	return maps.EqualFunc(m1, m2, eq)
}
func DeleteFunc[M ~map[K]V, K comparable, V any](m M, del func(K, V) bool) {
	for k, v := range simrt.RangeMap(0, m) {
		if del(k, v) {
			delete(m, k)
		}
	}
}
