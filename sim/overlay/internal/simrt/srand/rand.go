// Package rand (shim for math/rand): the top-level functions draw from the
// simulator's seeded stream, so a run replays exactly while two evaluations
// within a run still see different values.
package rand

import (
	"math/rand"

	"github.com/woodsbury/jmespath/internal/simrt"
)

type (
	Rand     = rand.Rand
	Source   = rand.Source
	Source64 = rand.Source64
	Zipf     = rand.Zipf
)

func New(src Source) *Rand                             { return rand.New(src) }
func NewSource(seed int64) Source                      { return rand.NewSource(seed) }
func NewZipf(r *Rand, s, v float64, imax uint64) *Zipf { return rand.NewZipf(r, s, v, imax) }
func Seed(seed int64)                                  {}
func Uint64() uint64                                   { return simrt.Rand64() }
func Uint32() uint32                                   { return uint32(simrt.Rand64() >> 32) }
func Int63() int64                                     { return int64(simrt.Rand64() >> 1) }
func Int31() int32                                     { return int32(simrt.Rand64() >> 33) }
func Int() int                                         { return int(uint(simrt.Rand64()) >> 1) }
func Float64() float64                                 { return float64(simrt.Rand64()>>11) / (1 << 53) }
func Float32() float32                                 { return float32(simrt.Rand64()>>40) / (1 << 24) }
func NormFloat64() float64                             { return rand.New(src{}).NormFloat64() }
func ExpFloat64() float64                              { return rand.New(src{}).ExpFloat64() }
func Read(p []byte) (int, error)                       { return rand.New(src{}).Read(p) }
func Perm(n int) []int                                 { return rand.New(src{}).Perm(n) }
func Shuffle(n int, swap func(i, j int))               { rand.New(src{}).Shuffle(n, swap) }
func Int63n(n int64) int64                             { return rand.New(src{}).Int63n(n) }
func Int31n(n int32) int32                             { return rand.New(src{}).Int31n(n) }
func Intn(n int) int                                   { return rand.New(src{}).Intn(n) }

type src struct{}

func (src) Int63() int64   { return int64(simrt.Rand64() >> 1) }
func (src) Uint64() uint64 { return simrt.Rand64() }
func (src) Seed(int64)     {}
