package simrt

import (
	"bytes"
	"iter"
	"os"
	"runtime"
	"strconv"
	"unsafe"
)

// Channel operations of repository code.
//
// A simple send or receive is first tried without blocking while the task
// holds the baton. If it would block, the task marks itself blocked, hands the
// baton to another task and then REALLY blocks in the Go runtime (a polling
// loop could never meet another polling party on an unbuffered channel). It
// becomes runnable again when the task holding the baton performs the
// matching operation (or closes the channel); it then marks itself runnable
// and parks on its pipe until the schedule picks it.
//
// Determinism: whoever holds the baton calls settle() after every channel
// operation that succeeded, after Close and when it is woken by a task that is
// on its way into a block. settle() waits until every task in the blocked
// state is really parked inside a channel operation (read off the runtime's
// goroutine dump), i.e. until everybody released by the operation has marked
// itself runnable. So at every scheduling decision the set of runnable tasks
// is a function of the schedule, not of timing.
//
// select statements are rewritten into polling loops by the instrumenter (a
// non-blocking attempt succeeds exactly when the counterpart is parked, which
// simple sends/receives now are); their clause bodies start with AfterOp.

const (
	dirSend = 1
	dirRecv = 2
)

var (
	needSettle   bool
	maybeBlocked bool
	stackBuf     []byte
	// BlockedOps counts operations that really blocked.
	BlockedOps uint64
)

func chanID[T any](ch chan T) uintptr    { return *(*uintptr)(unsafe.Pointer(&ch)) }
func chanIDr[T any](ch <-chan T) uintptr { return *(*uintptr)(unsafe.Pointer(&ch)) }
func chanIDs[T any](ch chan<- T) uintptr { return *(*uintptr)(unsafe.Pointer(&ch)) }

// curGID parses the current goroutine's id out of its stack header.
func curGID() uint64 {
	var b [64]byte
	n := runtime.Stack(b[:], false)
	s := b[:n]
	s = bytes.TrimPrefix(s, []byte("goroutine "))
	i := bytes.IndexByte(s, ' ')
	if i < 0 {
		return 0
	}
	id, _ := strconv.ParseUint(string(s[:i]), 10, 64)
	return id
}

// parkedInChanOp reports whether goroutine gid is parked in a channel
// operation according to dump (output of runtime.Stack(all)).
func parkedInChanOp(dump []byte, gid uint64) bool {
	key := []byte("goroutine " + strconv.FormatUint(gid, 10) + " [")
	i := bytes.Index(dump, key)
	for i > 0 && dump[i-1] != '\n' {
		j := bytes.Index(dump[i+1:], key)
		if j < 0 {
			return false
		}
		i += 1 + j
	}
	if i < 0 {
		return false
	}
	st := dump[i+len(key):]
	return bytes.HasPrefix(st, []byte("chan send")) || bytes.HasPrefix(st, []byte("chan receive")) || bytes.HasPrefix(st, []byte("select"))
}

// settle waits until every task in the blocked state is really parked in a
// channel operation.
//
//go:norace
func settle() {
	if !maybeBlocked {
		return
	}
	for spin := 0; ; spin++ {
		any3 := false
		for i := 0; i < ntasks; i++ {
			if tasks[i].state == 3 {
				any3 = true
			}
		}
		if !any3 {
			maybeBlocked = false
			return
		}
		if len(stackBuf) == 0 {
			stackBuf = make([]byte, 1<<16)
		}
		n := runtime.Stack(stackBuf, true)
		for n == len(stackBuf) {
			stackBuf = make([]byte, 2*len(stackBuf))
			n = runtime.Stack(stackBuf, true)
		}
		dump := stackBuf[:n]
		all := true
		for i := 0; i < ntasks; i++ {
			if tasks[i].state == 3 && !parkedInChanOp(dump, tasks[i].gid) {
				all = false
			}
		}
		if all {
			return
		}
		if spin > 2_000_000 {
			os.Stdout.WriteString("SIM-SETTLE-TIMEOUT\n")
			os.Exit(2)
		}
		runtime.Gosched()
	}
}

// beginBlock: the running task is about to block for real. It marks itself
// blocked and hands the baton to another runnable task.
//
//go:norace
func beginBlock(c uintptr, dir int8) int {
	me := cur
	BlockedOps++
	tasks[me].state = 3
	tasks[me].blockedOn = c
	tasks[me].blockDir = dir
	maybeBlocked = true
	nx := decide(gstep, me, -3, true)
	if nx < 0 {
		// nobody can run, so nobody can ever perform the matching operation
		os.Stdout.WriteString("SIM-DEADLOCK\n")
		os.Exit(68)
	}
	tasks[me].parkedSite = -3
	record(gstep, me, -3, nx, true)
	needSettle = true // the task woken next must wait until we are really parked
	cur = nx
	rawWrite(tasks[nx].wfd)
	return me
}

// endBlock: the real operation has completed (somebody holding the baton
// made it possible and is now waiting in settle()). Become runnable and park.
//
//go:norace
func endBlock(me int) {
	tasks[me].blockedOn = 0
	tasks[me].state = 1
	rawRead(tasks[me].rfd)
	settleIfNeeded()
}

// settleIfNeeded is called by a task that has just been given the baton: only
// if the task that handed it over was on its way into a real block is there
// anybody whose state could still be changing.
//
//go:norace
func settleIfNeeded() {
	if needSettle {
		needSettle = false
		settle()
	}
}

//go:norace
func simulating() bool { return active && cur >= 0 }

func Recv[T any](ch <-chan T) T {
	v, _ := Recv2(ch)
	return v
}

func Recv2[T any](ch <-chan T) (T, bool) {
	Yield(0)
	if !simulating() {
		v, ok := <-ch
		return v, ok
	}
	select {
	case v, ok := <-ch:
		settle()
		return v, ok
	default:
	}
	me := beginBlock(chanIDr(ch), dirRecv)
	v, ok := <-ch
	endBlock(me)
	return v, ok
}

func Send[T any](ch chan<- T, v T) {
	Yield(0)
	if !simulating() {
		ch <- v
		return
	}
	select {
	case ch <- v:
		settle()
		return
	default:
	}
	me := beginBlock(chanIDs(ch), dirSend)
	ch <- v
	endBlock(me)
}

// Close replaces close(ch): every receiver it releases must have marked
// itself runnable before the closer goes on.
func Close[C interface{ ~chan T | ~chan<- T }, T any](ch C) {
	Yield(0)
	close(ch)
	if simulating() {
		settle()
	}
}

// AfterOp is called at the start of every select clause body: the
// communication of that clause has just succeeded.
func AfterOp() {
	if simulating() {
		settle()
	}
}

// RecvSeq replaces `range ch`.
func RecvSeq[T any](ch <-chan T) iter.Seq[T] {
	return func(yield func(T) bool) {
		for {
			v, ok := Recv2(ch)
			if !ok {
				return
			}
			if !yield(v) {
				return
			}
		}
	}
}
