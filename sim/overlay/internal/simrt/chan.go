package simrt

import "iter"

// Channel operations of repository code are rewritten to these polling
// forms, so that a simulated client that has to wait hands the processor to
// another client instead of blocking the only running goroutine. If nobody
// else can run, Block reports a deadlock (exit 68).

func Recv[T any](ch <-chan T) T {
	Yield(0)
	for {
		select {
		case v := <-ch:
			return v
		default:
		}
		if ch == nil {
			Block()
			continue
		}
		Block()
	}
}

func Recv2[T any](ch <-chan T) (T, bool) {
	Yield(0)
	for {
		select {
		case v, ok := <-ch:
			return v, ok
		default:
		}
		Block()
	}
}

func Send[T any](ch chan<- T, v T) {
	Yield(0)
	for {
		select {
		case ch <- v:
			return
		default:
		}
		Block()
	}
}

// RecvSeq replaces `range ch`: it receives by polling until the channel is
// closed.
func RecvSeq[T any](ch <-chan T) iter.Seq[T] {
	return func(yield func(T) bool) {
		for {
			v, ok := Recv2(ch)
			if !ok {
				return
			}
			if !yield(v) {
				return
			}
		}
	}
}
