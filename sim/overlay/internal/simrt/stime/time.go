// Package time (shim): Now/Since/Until/Sleep read the simulator's clock, which
// advances with simulated steps and may jump (fault). Everything else is the
// real package.
package time

import (
	"time"

	"github.com/woodsbury/jmespath/internal/simrt"
)

type (
	Time       = time.Time
	Duration   = time.Duration
	Month      = time.Month
	Weekday    = time.Weekday
	Location   = time.Location
	Timer      = time.Timer
	Ticker     = time.Ticker
	ParseError = time.ParseError
)

const (
	Nanosecond  = time.Nanosecond
	Microsecond = time.Microsecond
	Millisecond = time.Millisecond
	Second      = time.Second
	Minute      = time.Minute
	Hour        = time.Hour

	Layout      = time.Layout
	ANSIC       = time.ANSIC
	UnixDate    = time.UnixDate
	RFC822      = time.RFC822
	RFC1123     = time.RFC1123
	RFC3339     = time.RFC3339
	RFC3339Nano = time.RFC3339Nano
	Kitchen     = time.Kitchen
	DateTime    = time.DateTime
	DateOnly    = time.DateOnly
	TimeOnly    = time.TimeOnly

	January  = time.January
	February = time.February
	December = time.December
	Sunday   = time.Sunday
	Monday   = time.Monday
)

var (
	UTC   = time.UTC
	Local = time.Local
)

func Now() Time                 { return time.Unix(0, simrt.NowNanos()).UTC() }
func Since(t Time) Duration     { return Now().Sub(t) }
func Until(t Time) Duration     { return t.Sub(Now()) }
func Sleep(d Duration)          { simrt.Advance(int64(d)); simrt.Yield(0) }
func Unix(sec, nsec int64) Time { return time.Unix(sec, nsec) }
func UnixMilli(ms int64) Time   { return time.UnixMilli(ms) }
func UnixMicro(us int64) Time   { return time.UnixMicro(us) }
func Date(y int, m Month, d, h, mi, s, ns int, l *Location) Time {
	return time.Date(y, m, d, h, mi, s, ns, l)
}
func Parse(layout, value string) (Time, error) { return time.Parse(layout, value) }
func ParseDuration(s string) (Duration, error) { return time.ParseDuration(s) }
func ParseInLocation(l, v string, loc *Location) (Time, error) {
	return time.ParseInLocation(l, v, loc)
}
func LoadLocation(name string) (*Location, error) { return time.LoadLocation(name) }
func FixedZone(name string, offset int) *Location { return time.FixedZone(name, offset) }
