//go:build !race

package simrt

const RaceEnabled = false

func RaceErrors() int { return 0 }
