//go:build race

package simrt

import "runtime"

const RaceEnabled = true

func RaceErrors() int { return runtime.RaceErrors() }
