//go:build race

package sync

import (
	"runtime"
	"unsafe"
)

func raceReleaseMerge(p unsafe.Pointer) { runtime.RaceReleaseMerge(p) }
func raceAcquire(p unsafe.Pointer)      { runtime.RaceAcquire(p) }
