// Package sync (shim) replaces the standard sync package in the instrumented
// copy of the repository, so that a lock held by a parked simulated client
// cannot deadlock the simulator and so that sync.Pool behaves
// deterministically (LIFO shared by all clients, with seeded drops).
// Happens-before edges are preserved: Mutex/RWMutex/Once are built on the
// real primitives (TryLock), Pool annotates Put->Get with the race runtime.
package sync

import (
	"sync"
	"sync/atomic"

	"github.com/woodsbury/jmespath/internal/simrt"
)

type (
	Map    = sync.Map
	Locker = sync.Locker
)

// Cond: waiters take a ticket and poll (handing the processor over) until a
// Signal or Broadcast has served it. Atomics carry the happens-before edges.
type Cond struct {
	L      Locker
	next   atomic.Uint64 // tickets handed out
	served atomic.Uint64 // tickets served
}

func (c *Cond) Wait() {
	t := c.next.Add(1) // my ticket: served when c.served >= t
	c.L.Unlock()
	simrt.Yield(0)
	for c.served.Load() < t {
		simrt.Block()
	}
	c.L.Lock()
}

func (c *Cond) Signal() {
	for {
		s := c.served.Load()
		if s >= c.next.Load() {
			break // nobody is waiting: the signal is lost, as with the real Cond
		}
		if c.served.CompareAndSwap(s, s+1) {
			break
		}
	}
	simrt.Yield(0)
}

func (c *Cond) Broadcast() {
	for {
		s, n := c.served.Load(), c.next.Load()
		if s >= n || c.served.CompareAndSwap(s, n) {
			break
		}
	}
	simrt.Yield(0)
}

// WaitGroup: Wait polls (handing the processor to other simulated tasks)
// instead of blocking the only running goroutine; the real WaitGroup
// underneath keeps the happens-before edges.
type WaitGroup struct {
	n  atomic.Int64
	wg sync.WaitGroup
}

func (w *WaitGroup) Add(delta int) {
	w.wg.Add(delta)
	w.n.Add(int64(delta))
}

func (w *WaitGroup) Done() {
	w.wg.Done()
	w.n.Add(-1)
	simrt.Yield(0)
}

func (w *WaitGroup) Wait() {
	simrt.Yield(0)
	for w.n.Load() > 0 {
		simrt.Block()
	}
	w.wg.Wait()
}

func (w *WaitGroup) Go(f func()) {
	w.Add(1)
	simrt.Go(func() {
		defer w.Done()
		f()
	})
}

func NewCond(l Locker) *Cond { return &Cond{L: l} }

type Mutex struct{ mu sync.Mutex }

func (m *Mutex) Lock() {
	simrt.Yield(0)
	for !m.mu.TryLock() {
		simrt.Block()
	}
}
func (m *Mutex) Unlock()       { m.mu.Unlock(); simrt.Yield(0) }
func (m *Mutex) TryLock() bool { return m.mu.TryLock() }

type RWMutex struct{ mu sync.RWMutex }

func (m *RWMutex) Lock() {
	simrt.Yield(0)
	for !m.mu.TryLock() {
		simrt.Block()
	}
}
func (m *RWMutex) Unlock() { m.mu.Unlock(); simrt.Yield(0) }
func (m *RWMutex) RLock() {
	simrt.Yield(0)
	for !m.mu.TryRLock() {
		simrt.Block()
	}
}
func (m *RWMutex) RUnlock()        { m.mu.RUnlock(); simrt.Yield(0) }
func (m *RWMutex) TryLock() bool   { return m.mu.TryLock() }
func (m *RWMutex) TryRLock() bool  { return m.mu.TryRLock() }
func (m *RWMutex) RLocker() Locker { return (*rlocker)(m) }

type rlocker RWMutex

func (r *rlocker) Lock()   { (*RWMutex)(r).RLock() }
func (r *rlocker) Unlock() { (*RWMutex)(r).RUnlock() }

type Once struct {
	done atomic.Uint32
	m    Mutex
}

func (o *Once) Do(f func()) {
	if o.done.Load() == 0 {
		o.doSlow(f)
	}
}

func (o *Once) doSlow(f func()) {
	o.m.Lock()
	defer o.m.Unlock()
	if o.done.Load() == 0 {
		defer o.done.Store(1)
		f()
	}
}

func OnceFunc(f func()) func() {
	var once Once
	return func() { once.Do(f) }
}

func OnceValue[T any](f func() T) func() T {
	var once Once
	var r T
	return func() T {
		once.Do(func() { r = f() })
		return r
	}
}

func OnceValues[T1, T2 any](f func() (T1, T2)) func() (T1, T2) {
	var once Once
	var r1 T1
	var r2 T2
	return func() (T1, T2) {
		once.Do(func() { r1, r2 = f() })
		return r1, r2
	}
}

// Pool: deterministic LIFO shared by all simulated clients. A seeded share of
// Puts is dropped (as the garbage collector may do at any time).
type Pool struct {
	New   func() any
	mu    sync.Mutex // only used outside a simulation (real concurrency)
	items []any
	sync_ [128]byte
}

func (p *Pool) Put(x any) {
	if x == nil {
		return
	}
	simrt.Yield(0)
	if simrt.Active() {
		p.put(x)
		return
	}
	p.mu.Lock()
	p.items = append(p.items, x)
	p.mu.Unlock()
}

func (p *Pool) Get() any {
	simrt.Yield(0)
	if simrt.Active() {
		if x := p.get(); x != nil {
			return x
		}
	} else {
		p.mu.Lock()
		if n := len(p.items); n > 0 {
			x := p.items[n-1]
			p.items = p.items[:n-1]
			p.mu.Unlock()
			return x
		}
		p.mu.Unlock()
	}
	if p.New != nil {
		return p.New()
	}
	return nil
}
