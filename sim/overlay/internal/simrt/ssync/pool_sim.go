package sync

import (
	"unsafe"

	"github.com/woodsbury/jmespath/internal/simrt"
)

func dataWord(x any) uintptr { return uintptr((*[2]unsafe.Pointer)(unsafe.Pointer(&x))[1]) }

func (p *Pool) raceAddr(x any) unsafe.Pointer {
	h := uint32((uint64(uint32(dataWord(x))) * 0x85ebca6b) >> 16)
	return unsafe.Pointer(&p.sync_[h%uint32(len(p.sync_))])
}

//go:norace
func (p *Pool) put(x any) {
	simrt.PoolPuts++
	if simrt.Chance(8) {
		simrt.PoolDrops++
		return
	}
	raceReleaseMerge(p.raceAddr(x))
	p.items = append(p.items, x)
}

//go:norace
func (p *Pool) get() any {
	simrt.PoolGets++
	n := len(p.items)
	if n == 0 {
		return nil
	}
	x := p.items[n-1]
	p.items[n-1] = nil
	p.items = p.items[:n-1]
	raceAcquire(p.raceAddr(x))
	return x
}
