//go:build !race

package sync

import "unsafe"

func raceReleaseMerge(p unsafe.Pointer) {}
func raceAcquire(p unsafe.Pointer)      {}
