package simrt

import (
	"fmt"
	"iter"
	"sort"
	"sync"
)

// Map iteration order policies (the seam behind every `range` over a map in
// repository code).
const (
	PolSorted   = iota // ascending key order
	PolReverse         // descending key order
	PolRotate          // sorted order rotated by Seed % n
	PolHash            // ordered by a keyed hash of the key
	PolNative          // Go's own (randomised) order: not replayable, used for realism
	PolPerRange        // a fresh keyed-hash order for every single range statement executed (as Go
	// re-randomises per range): two ranges over the same map may disagree
)

type Policy struct {
	Kind uint8  `json:"k"`
	Seed uint64 `json:"s,omitempty"`
}

var (
	mapDigest uint64
	mapServed uint64
	mapReord  uint64
	// MapSites counts, per site, how many distinct-looking permutations were
	// served (xor-folded small hash set); filled only when TrackPerms is set.
	TrackPerms bool
	PermSeen   map[uint64]struct{}
)

// SetPolicy sets the map-order policy of the running task (or of the
// controller when no task is running).
//
//go:norace
func SetPolicy(p Policy) {
	if active && cur >= 0 {
		tasks[cur].policy = p
		tasks[cur].ranges = 0
		return
	}
	ctrl.policy = p
	ctrl.ranges = 0
}

//go:norace
func curPolicy() Policy {
	t := &ctrl
	if active && cur >= 0 {
		t = &tasks[cur]
	}
	p := t.policy
	if p.Kind == PolPerRange {
		t.ranges++
		return Policy{Kind: PolHash, Seed: mix(p.Seed, t.ranges)}
	}
	return p
}

//go:norace
func noteMap(site int, n int, h uint64, reordered bool) {
	mapServed++
	if reordered {
		mapReord++
	}
	mapDigest = mix(mapDigest, uint64(site)<<32^h)
}

//go:norace
func hashString(seed uint64, s string) uint64 {
	h := seed ^ 0xcbf29ce484222325
	for i := 0; i < len(s); i++ {
		h ^= uint64(s[i])
		h *= 0x100000001b3
	}
	h ^= h >> 29
	h *= 0xbf58476d1ce4e5b9
	return h ^ (h >> 32)
}

// RangeMap replaces `range m` for maps in instrumented code. It snapshots the
// keys, orders them by the current policy and re-checks presence before
// yielding each entry, which is a legal refinement of Go's range semantics.
func RangeMap[M ~map[K]V, K comparable, V any](site int, m M) iter.Seq2[K, V] {
	return func(yield func(K, V) bool) {
		pol := curPolicy()
		if len(m) < 2 || pol.Kind == PolNative {
			for k, v := range m {
				if !yield(k, v) {
					return
				}
			}
			return
		}
		keys := make([]K, 0, len(m))
		for k := range m {
			keys = append(keys, k)
		}
		strs := make([]string, len(keys))
		if ks, ok := any(keys).([]string); ok {
			copy(strs, ks)
		} else {
			for i, k := range keys {
				strs[i] = fmt.Sprint(k)
			}
		}
		idx := make([]int, len(keys))
		for i := range idx {
			idx[i] = i
		}
		sort.Slice(idx, func(a, b int) bool { return strs[idx[a]] < strs[idx[b]] })
		n := len(idx)
		switch pol.Kind {
		case PolReverse:
			for i, j := 0, n-1; i < j; i, j = i+1, j-1 {
				idx[i], idx[j] = idx[j], idx[i]
			}
		case PolRotate:
			r := int(pol.Seed % uint64(n))
			if r > 0 {
				t := append(append([]int(nil), idx[r:]...), idx[:r]...)
				copy(idx, t)
			}
		case PolHash:
			hs := make([]uint64, n)
			for i := range keys {
				hs[i] = hashString(pol.Seed, strs[i])
			}
			sorted := append([]int(nil), idx...)
			sort.SliceStable(sorted, func(a, b int) bool { return hs[sorted[a]] < hs[sorted[b]] })
			copy(idx, sorted)
		}
		reordered := false
		var h uint64
		for i := 0; i < n; i++ {
			if i > 0 && strs[idx[i-1]] > strs[idx[i]] {
				reordered = true
			}
			h = mix(h, hashString(0, strs[idx[i]]))
		}
		noteMap(site, n, h, reordered)
		if TrackPerms {
			notePerm(site, h)
		}
		for _, i := range idx {
			k := keys[i]
			v, ok := m[k]
			if !ok {
				continue
			}
			if !yield(k, v) {
				return
			}
		}
	}
}

var permMu sync.Mutex

func notePerm(site int, h uint64) {
	// coverage bookkeeping only. Skipped while several tasks are simulated (a
	// lock here would add happens-before edges between them); outside a
	// simulation the library may run goroutines of its own for real, hence the
	// lock.
	if simulatingMany() {
		return
	}
	permMu.Lock()
	if PermSeen == nil {
		PermSeen = make(map[uint64]struct{})
	}
	PermSeen[mix(uint64(site), h)] = struct{}{}
	permMu.Unlock()
}

//go:norace
func simulatingMany() bool { return active && ntasks > 1 }
