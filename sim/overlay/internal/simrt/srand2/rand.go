// Package rand (shim for math/rand/v2), see srand.
package rand

import (
	"math/rand/v2"

	"github.com/woodsbury/jmespath/internal/simrt"
)

type (
	Rand    = rand.Rand
	Source  = rand.Source
	PCG     = rand.PCG
	ChaCha8 = rand.ChaCha8
	Zipf    = rand.Zipf
)

type src struct{}

func (src) Uint64() uint64 { return simrt.Rand64() }

func r() *Rand { return rand.New(src{}) }

func New(s Source) *Rand                                { return rand.New(s) }
func NewPCG(seed1, seed2 uint64) *PCG                   { return rand.NewPCG(seed1, seed2) }
func NewChaCha8(seed [32]byte) *ChaCha8                 { return rand.NewChaCha8(seed) }
func NewZipf(rr *Rand, s, v float64, imax uint64) *Zipf { return rand.NewZipf(rr, s, v, imax) }
func Int() int                                          { return r().Int() }
func IntN(n int) int                                    { return r().IntN(n) }
func Int32() int32                                      { return r().Int32() }
func Int32N(n int32) int32                              { return r().Int32N(n) }
func Int64() int64                                      { return r().Int64() }
func Int64N(n int64) int64                              { return r().Int64N(n) }
func Uint() uint                                        { return r().Uint() }
func UintN(n uint) uint                                 { return r().UintN(n) }
func Uint32() uint32                                    { return r().Uint32() }
func Uint32N(n uint32) uint32                           { return r().Uint32N(n) }
func Uint64() uint64                                    { return r().Uint64() }
func Uint64N(n uint64) uint64                           { return r().Uint64N(n) }
func Float64() float64                                  { return r().Float64() }
func Float32() float32                                  { return r().Float32() }
func NormFloat64() float64                              { return r().NormFloat64() }
func ExpFloat64() float64                               { return r().ExpFloat64() }
func Perm(n int) []int                                  { return r().Perm(n) }
func Shuffle(n int, swap func(i, j int))                { r().Shuffle(n, swap) }
func N[Int interface {
	~int | ~int8 | ~int16 | ~int32 | ~int64 | ~uint | ~uint8 | ~uint16 | ~uint32 | ~uint64 | ~uintptr
}](n Int) Int {
	if n <= 0 {
		panic("invalid argument to N")
	}
	return Int(simrt.Rand64() % uint64(n))
}
