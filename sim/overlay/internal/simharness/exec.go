package main

import (
	"encoding/json"
	"fmt"
	"runtime"
	"sort"
	"strconv"
	"strings"

	jmespath "github.com/woodsbury/jmespath"
	"github.com/woodsbury/jmespath/internal/simrt"
)

type Violation struct {
	Prop   string `json:"prop"`
	Class  string `json:"class"`  // outcome-mismatch | input-mutated | result-mutated | mustcompile-mismatch | data-race | order-dependence | nondeterminism | no-progress | deadlock | fatal
	Sig    string `json:"sig"`    // what must stay the same while minimising
	Detail string `json:"detail"` // human readable
}

type Tuple struct {
	Text     string       `json:"t"`
	Doc      string       `json:"d"`
	Pol      simrt.Policy `json:"p"`
	OneShot  bool         `json:"o,omitempty"`
	Key      string       `json:"k"` // expected exact outcome key (C06/C07) or canonical digest (C15)
	Mode     *Mode        `json:"m,omitempty"`
	Exact    bool         `json:"x,omitempty"`
	ErrAny   bool         `json:"ea,omitempty"` // C15: any error matches any error
	PanicAny bool         `json:"pa,omitempty"` // C15: a panic matches any failure
	Always   bool         `json:"al,omitempty"` // recorded for the oracle process whatever the sampling rate
}

type Stats struct {
	Runs, Calls, OkCalls, ErrCalls, PanicCalls uint64
	Aborted                                    uint64 // F3: calls failing with a run-time error
	StaticErr                                  uint64
	Steps, MaxSteps                            uint64
	Switches                                   uint64 // F1 preemptions (excluding task start/finish)
	MapServed, MapReord                        uint64 // F2
	GCs                                        uint64 // F6
	AliasResults                               uint64 // probe: result aliases input or literal
	SpareCapDocs                               uint64 // F5
	SharedDocCalls                             uint64
	ExprStateChanged                           uint64 // probe
	Feeds, Mutates                             uint64
	NonNull                                    uint64
	Unsafe, Strict, Enum, MultiFault           uint64 // C15 classes
	Compared                                   uint64 // C15 cross-policy comparisons made
	Blocks                                     uint64
	Cold                                       uint64 // F4
	Schedules                                  map[string]uint64
	SwitchHashes                               map[uint64]struct{}
	SitePairs                                  map[[2]int32]struct{}
	PreemptSites                               map[int32]struct{}
	Texts                                      map[uint64]struct{}
	NontrivTexts                               map[uint64]struct{}
	TraceDigest                                uint64 // xor of per-run digests (determinism self-check)
}

func newStats() *Stats {
	return &Stats{Schedules: map[string]uint64{}, SwitchHashes: map[uint64]struct{}{}, SitePairs: map[[2]int32]struct{}{},
		PreemptSites: map[int32]struct{}{}, Texts: map[uint64]struct{}{}, NontrivTexts: map[uint64]struct{}{}}
}

type RunReport struct {
	Viol         *Violation
	Inconclusive string
	Tuples       []Tuple
	Digest       uint64 // event-log digest of the run (task/site sequence, map perms, outcomes)
	Explicit     simrt.Schedule
	TaskSteps    []uint64
	HotHits      uint64
}

func runtimeCat(cat string) bool {
	switch cat {
	case "Syntax", "InvalidArity", "UnknownFunction":
		return false
	}
	return true
}

func containerPtrs(v any, set map[uintptr]bool) {
	switch x := v.(type) {
	case []any:
		if p := ptrOf(x); p != 0 {
			if set[p] {
				return
			}
			set[p] = true
		}
		for _, el := range x[:cap(x)] {
			containerPtrs(el, set)
		}
	case map[string]any:
		if p := ptrOf(x); p != 0 {
			if set[p] {
				return
			}
			set[p] = true
		}
		for _, el := range x {
			containerPtrs(el, set)
		}
	}
}

func aliases(v any, set map[uintptr]bool) bool {
	switch x := v.(type) {
	case []any:
		if p := ptrOf(x); p != 0 && set[p] {
			return true
		}
		for _, el := range x {
			if aliases(el, set) {
				return true
			}
		}
	case map[string]any:
		if p := ptrOf(x); p != 0 && set[p] {
			return true
		}
		for _, el := range x {
			if aliases(el, set) {
				return true
			}
		}
	}
	return false
}

func hasSpare(enc string) bool { return strings.Contains(enc, `,"cap":`) }

func schedName(s simrt.Schedule) string {
	switch s.Kind {
	case simrt.StratExplicit:
		if len(s.Switches) == 0 {
			return "sequential"
		}
		return "explicit"
	case simrt.StratWalk:
		return fmt.Sprintf("walk/%d", s.WalkDen)
	case simrt.StratPCT:
		return fmt.Sprintf("pct-d%d", s.Depth)
	case simrt.StratHotWalk:
		return fmt.Sprintf("hotwalk/%d", s.HotDen)
	case simrt.StratHotPreempt:
		return "hot-preempt"
	}
	return "?"
}

// explicitOf converts the decisions taken in a run into an explicit schedule.
func explicitOf(res simrt.Result, orig simrt.Schedule) simrt.Schedule {
	out := simrt.Schedule{Kind: simrt.StratExplicit, GCSteps: orig.GCSteps, Seed: orig.Seed}
	for i, sw := range res.Switches {
		if i == 0 && sw.From < 0 {
			out.First = int(sw.To)
			continue
		}
		if sw.Site == -2 {
			continue // lock hand-offs are deterministic, not schedule decisions
		}
		out.Switches = append(out.Switches, sw)
	}
	return out
}

func noteSchedule(st *Stats, w *Workload, res simrt.Result) {
	st.Runs++
	st.Steps += res.Steps
	if res.Steps > st.MaxSteps {
		st.MaxSteps = res.Steps
	}
	st.MapServed += res.MapServed
	st.MapReord += res.MapReord
	st.GCs += uint64(res.GCs)
	st.Blocks += res.Blocks
	st.Schedules[schedName(w.Sched)]++
	h := uint64(len(w.Tasks))
	for i, sw := range res.Switches {
		if sw.From >= 0 && !sw.Finish && sw.Site >= 0 {
			st.Switches++
			st.PreemptSites[sw.Site] = struct{}{}
			st.SitePairs[res.Parked[i]] = struct{}{}
		}
		h = hmix(h, uint64(sw.From+1)<<40|uint64(uint32(sw.Site))<<8|uint64(sw.To+1))
	}
	st.SwitchHashes[h] = struct{}{}
	st.TraceDigest ^= hmix(res.Digest, res.MapDigest)
}

type callRec struct {
	op      Op
	text    string
	docEnc  string // pristine encoding of the document as it was before the call
	out     Outcome
	key     string // Key() taken when the call returned
	steps   uint64
	oneShot bool
	skipped bool
}

// ---------------------------------------------------------------------------
// C07: concurrent clients under the seeded scheduler.
// ---------------------------------------------------------------------------

func RunC07(w *Workload, st *Stats, maxYields uint64) *RunReport {
	rep := &RunReport{}
	docs := make([]any, len(w.Docs))
	fp0 := make([]uint64, len(w.Docs))
	enc0 := make([]string, len(w.Docs))
	docPtrs := map[uintptr]bool{}
	for i, d := range w.Docs {
		v, err := Dec(d)
		if err != nil {
			rep.Inconclusive = "bad document encoding: " + err.Error()
			return rep
		}
		docs[i] = v
	}
	applyShares(w, docs)
	for i, d := range w.Docs {
		v := docs[i]
		fp0[i] = Fingerprint(v)
		enc0[i] = Enc(v)
		containerPtrs(v, docPtrs)
		if hasSpare(d) {
			st.SpareCapDocs++
		}
	}
	shared := make([]*jmespath.Expression, len(w.Exprs))
	sharedFP := make([]uint64, len(w.Exprs))
	simrt.SetPolicy(simrt.Policy{})
	for _, i := range w.Shared {
		e, _ := callCompile(w.Exprs[i].Text)
		shared[i] = e
		if e != nil {
			sharedFP[i] = ReflectFingerprint(e)
		}
	}
	recs := make([][]callRec, len(w.Tasks))
	fns := make([]func(), len(w.Tasks))
	for t := range w.Tasks {
		t := t
		recs[t] = make([]callRec, len(w.Tasks[t]))
		fns[t] = func() {
			for k, op := range w.Tasks[t] {
				rc := &recs[t][k]
				rc.op = op
				if op.K == "churn" {
					// many compilations of distinct small texts: whatever Compile keeps
					// between calls (caches, rings, LRU lists) is turned over
					rc.skipped = true
					for i := 0; i < op.R; i++ {
						text := fmt.Sprintf("churn_%d_%d_%d", op.E, t, i)
						if e, o := callCompile(text); e == nil {
							rc.skipped = false
							rc.text, rc.docEnc, rc.out, rc.oneShot = text, "null", o, false
							rc.key = o.Key()
							break
						}
					}
					continue
				}
				if op.E < 0 || op.E >= len(w.Exprs) || op.D < 0 || op.D >= len(docs) {
					rc.skipped = true
					continue
				}
				rc.text = w.Exprs[op.E].Text
				rc.docEnc = enc0[op.D]
				simrt.SetPolicy(op.Pol)
				doc := docs[op.D]
				switch op.K {
				case "search":
					rc.oneShot = true
					rc.out = callSearch(rc.text, doc)
				case "esearch":
					e := shared[op.E]
					if e == nil {
						// the shared expression did not compile: the task compiles it itself
						rc.out = callFresh(rc.text, doc, false)
					} else {
						rc.out = callExprSearch(e, doc)
					}
				case "mustcompile":
					e, o := callMustCompile(rc.text)
					if e != nil {
						o = callExprSearch(e, doc)
					} else {
						// panicked: the reference must fail to compile
						_, co := callCompile(rc.text)
						if co.Kind == 'v' {
							o = Outcome{Kind: 'p', Msg: "MustCompile panicked but Compile succeeds: " + o.Msg}
						} else {
							o = co
						}
					}
					rc.out = o
				default: // compile
					rc.out = callFresh(rc.text, doc, false)
				}
				rc.key = rc.out.Key()
			}
		}
	}
	res := simrt.Run(fns, w.Sched, maxYields)
	rep.Explicit = explicitOf(res, w.Sched)
	rep.TaskSteps = res.TaskSteps
	rep.HotHits = res.HotHits
	noteSchedule(st, w, res)
	dg := hmix(res.Digest, res.MapDigest)

	// caller-visible memory
	for i := range docs {
		if Fingerprint(docs[i]) != fp0[i] {
			rep.Viol = &Violation{Prop: "C07", Class: "input-mutated", Sig: "input-mutated",
				Detail: fmt.Sprintf("document %d was modified by the library: before %s after %s", i, trunc(w.Docs[i], 300), trunc(EncCaps(docs[i]), 300))}
			return rep
		}
	}
	for _, i := range w.Shared {
		if shared[i] != nil && ReflectFingerprint(shared[i]) != sharedFP[i] {
			st.ExprStateChanged++
		}
	}
	// references: computed after the concurrent phase, in reverse order
	type ref struct{ t, k int }
	var order []ref
	for t := range recs {
		for k := range recs[t] {
			order = append(order, ref{t, k})
		}
	}
	for i := len(order) - 1; i >= 0; i-- {
		t, k := order[i].t, order[i].k
		rc := &recs[t][k]
		if rc.skipped {
			continue
		}
		st.Calls++
		st.Texts[hstr(0, rc.text)] = struct{}{}
		switch rc.out.Kind {
		case 'v':
			st.OkCalls++
			if rc.out.Val != nil {
				st.NonNull++
				st.NontrivTexts[hstr(0, rc.text)] = struct{}{}
			}
			if aliases(rc.out.Val, docPtrs) {
				st.AliasResults++
			}
		case 'e':
			st.ErrCalls++
			if runtimeCat(rc.out.Cat) {
				st.Aborted++
			} else {
				st.StaticErr++
			}
		case 'p':
			st.PanicCalls++
		}
		dg = hstr(dg, rc.key)
		// the value held by the caller must still be what was returned
		if now := rc.out.KeyNow(); now != rc.key {
			rep.Viol = &Violation{Prop: "C07", Class: "result-mutated", Sig: "result-mutated",
				Detail: fmt.Sprintf("task %d call %d (%s %q): result changed after the call returned: was %s now %s", t, k, rc.op.K, rc.text, trunc(rc.key, 300), trunc(now, 300))}
			return rep
		}
		pristine := MustDec(rc.docEnc)
		simrt.SetPolicy(rc.op.Pol)
		want := callFresh(rc.text, pristine, !rc.oneShot) // the other API path than the one under test
		if want.Key() != rc.key {
			// is the library deterministic at all for this call?
			// (the same API path evaluated again, alone, on an equal document)
			simrt.SetPolicy(rc.op.Pol)
			again := callFresh(rc.text, MustDec(rc.docEnc), !rc.oneShot)
			if again.Key() != want.Key() {
				rep.Inconclusive = fmt.Sprintf("library is nondeterministic for %q even when run alone (see C15): %s vs %s", rc.text, trunc(want.Key(), 120), trunc(again.Key(), 120))
				return rep
			}
			rep.Viol = &Violation{Prop: "C07", Class: "outcome-mismatch", Sig: "outcome-mismatch",
				Detail: fmt.Sprintf("task %d call %d (%s %q on doc %d): concurrent outcome %s, alone %s", t, k, rc.op.K, rc.text, rc.op.D, trunc(rc.key, 400), trunc(want.Key(), 400))}
			return rep
		}
		if len(w.Tasks) > 1 {
			st.SharedDocCalls++
		}
		rep.Tuples = append(rep.Tuples, Tuple{Text: rc.text, Doc: rc.docEnc, Pol: rc.op.Pol, OneShot: rc.oneShot, Key: rc.key})
	}
	rep.Digest = dg
	return rep
}

// ---------------------------------------------------------------------------
// C06: one client, a history of calls on reusable expressions.
// ---------------------------------------------------------------------------

type h6 struct {
	docs    []any
	fed     []bool
	fps     []uint64
	results []any
	rfps    []uint64
	slots   []*jmespath.Expression
	stext   []string
}

func (h *h6) rebaseline() {
	for i := range h.docs {
		h.fps[i] = Fingerprint(h.docs[i])
	}
	for i := range h.results {
		h.rfps[i] = Fingerprint(h.results[i])
	}
}

func RunC06(w *Workload, st *Stats, maxYields uint64) *RunReport {
	rep := &RunReport{}
	if len(w.Tasks) != 1 {
		rep.Inconclusive = "C06 workload must have one task"
		return rep
	}
	h := &h6{}
	for _, d := range w.Docs {
		v, err := Dec(d)
		if err != nil {
			rep.Inconclusive = "bad document encoding: " + err.Error()
			return rep
		}
		h.docs = append(h.docs, v)
		h.fed = append(h.fed, false)
		h.fps = append(h.fps, 0)
		if hasSpare(d) {
			st.SpareCapDocs++
		}
	}
	applyShares(w, h.docs)
	for i := range h.docs {
		h.fps[i] = Fingerprint(h.docs[i])
	}
	ops := w.Tasks[0]
	recs := make([]callRec, len(ops))
	var viol *Violation
	check := func(k int, op Op) bool {
		for i := range h.docs {
			if Fingerprint(h.docs[i]) != h.fps[i] {
				viol = &Violation{Prop: "C06", Class: "input-mutated", Sig: "input-mutated",
					Detail: fmt.Sprintf("op %d (%s): document %d was modified by the library; now %s", k, mustJSON(op), i, trunc(EncCaps(h.docs[i]), 400))}
				return false
			}
		}
		for i := range h.results {
			if Fingerprint(h.results[i]) != h.rfps[i] {
				viol = &Violation{Prop: "C06", Class: "result-mutated", Sig: "result-mutated",
					Detail: fmt.Sprintf("op %d (%s): earlier result %d changed; now %s", k, mustJSON(op), i, trunc(Enc(h.results[i]), 400))}
				return false
			}
		}
		return true
	}
	body := func() {
		for k, op := range ops {
			rc := &recs[k]
			rc.op = op
			rc.skipped = true
			simrt.SetPolicy(op.Pol)
			switch op.K {
			case "compile", "mustcompile":
				if op.E < 0 || op.E >= len(w.Exprs) {
					continue
				}
				text := w.Exprs[op.E].Text
				var e *jmespath.Expression
				var o Outcome
				if op.K == "compile" {
					e, o = callCompile(text)
				} else {
					e, o = callMustCompile(text)
					_, co := callCompile(text)
					if (o.Kind == 'p') != (co.Kind != 'v') {
						viol = &Violation{Prop: "C06", Class: "mustcompile-mismatch", Sig: "mustcompile-mismatch",
							Detail: fmt.Sprintf("op %d: MustCompile(%q) -> %s but Compile -> %s", k, text, o.Key(), co.Key())}
						return
					}
				}
				for len(h.slots) <= op.Slot {
					h.slots = append(h.slots, nil)
					h.stext = append(h.stext, "")
				}
				h.slots[op.Slot], h.stext[op.Slot] = e, text
				if o.Kind == 'e' && !runtimeCat(o.Cat) {
					st.StaticErr++
				}
			case "esearch", "search":
				if op.D < 0 || op.D >= len(h.docs) {
					continue
				}
				var text string
				var e *jmespath.Expression
				if op.K == "esearch" {
					if op.Slot < 0 || op.Slot >= len(h.slots) || h.slots[op.Slot] == nil {
						continue
					}
					e, text = h.slots[op.Slot], h.stext[op.Slot]
				} else {
					if op.E < 0 || op.E >= len(w.Exprs) {
						continue
					}
					text = w.Exprs[op.E].Text
				}
				rc.skipped = false
				rc.text = text
				rc.docEnc = Enc(h.docs[op.D])
				var efp uint64
				if e != nil {
					efp = ReflectFingerprint(e)
					rc.out = callExprSearch(e, h.docs[op.D])
					if ReflectFingerprint(e) != efp {
						st.ExprStateChanged++
					}
				} else {
					rc.oneShot = true
					rc.out = callSearch(text, h.docs[op.D])
				}
				rc.key = rc.out.Key()
				if !check(k, op) {
					return
				}
				var val any
				if rc.out.Kind == 'v' {
					val = rc.out.Val
				}
				h.results = append(h.results, val)
				h.rfps = append(h.rfps, Fingerprint(val))
			case "churn":
				for i := 0; i < op.R; i++ {
					text := fmt.Sprintf("churn_%d_%d", op.E, i)
					if e, o := callCompile(text); e == nil {
						viol = &Violation{Prop: "C06", Class: "outcome-mismatch", Sig: "outcome-mismatch",
							Detail: fmt.Sprintf("op %d: Compile(%q) fails after earlier compilations: %s", k, text, o.Key())}
						return
					}
				}
			case "feed":
				if op.R < 0 || op.R >= len(h.results) {
					continue
				}
				h.docs = append(h.docs, h.results[op.R])
				h.fed = append(h.fed, true)
				h.fps = append(h.fps, Fingerprint(h.results[op.R]))
				st.Feeds++
			case "mutate":
				if op.D < 0 || op.D >= len(h.docs) || h.fed[op.D] {
					continue
				}
				if mutateDoc(&h.docs[op.D], op.Mut) {
					st.Mutates++
				}
				h.rebaseline()
			}
		}
	}
	res := simrt.Run([]func(){body}, w.Sched, maxYields)
	rep.Explicit = explicitOf(res, w.Sched)
	noteSchedule(st, w, res)
	dg := hmix(res.Digest, res.MapDigest)
	if viol != nil {
		rep.Viol = viol
		return rep
	}
	docPtrs := map[uintptr]bool{}
	for i, d := range h.docs {
		if !h.fed[i] {
			containerPtrs(d, docPtrs)
		}
	}
	// references: after the history, newest first
	for k := len(recs) - 1; k >= 0; k-- {
		rc := &recs[k]
		if rc.skipped {
			continue
		}
		st.Calls++
		st.Texts[hstr(0, rc.text)] = struct{}{}
		switch rc.out.Kind {
		case 'v':
			st.OkCalls++
			if rc.out.Val != nil {
				st.NonNull++
				st.NontrivTexts[hstr(0, rc.text)] = struct{}{}
			}
			if aliases(rc.out.Val, docPtrs) {
				st.AliasResults++
			}
		case 'e':
			st.ErrCalls++
			if runtimeCat(rc.out.Cat) {
				st.Aborted++
			}
		case 'p':
			st.PanicCalls++
		}
		dg = hstr(dg, rc.key)
		if now := rc.out.KeyNow(); now != rc.key {
			// caller mutations may legitimately change a result that aliases the
			// caller's document; only flag when no mutate op follows op k
			later := false
			for j := k + 1; j < len(ops); j++ {
				if ops[j].K == "mutate" {
					later = true
				}
			}
			if !later {
				rep.Viol = &Violation{Prop: "C06", Class: "result-mutated", Sig: "result-mutated",
					Detail: fmt.Sprintf("op %d (%q): result changed after the call returned: was %s now %s", k, rc.text, trunc(rc.key, 300), trunc(now, 300))}
				return rep
			}
		}
		simrt.SetPolicy(rc.op.Pol)
		want := callFresh(rc.text, MustDec(rc.docEnc), !rc.oneShot)
		if want.Key() != rc.key {
			// Whatever the reason (state kept across calls, or plain
			// nondeterminism), the call did not return what a fresh evaluation
			// returns: that is what C06 forbids.
			rep.Viol = &Violation{Prop: "C06", Class: "outcome-mismatch", Sig: "outcome-mismatch",
				Detail: fmt.Sprintf("op %d (%s %q): outcome in history %s, fresh evaluation %s", k, rc.op.K, rc.text, trunc(rc.key, 400), trunc(want.Key(), 400))}
			return rep
		}
		rep.Tuples = append(rep.Tuples, Tuple{Text: rc.text, Doc: rc.docEnc, Pol: rc.op.Pol, OneShot: rc.oneShot, Key: rc.key})
	}
	rep.Digest = dg
	return rep
}

// mutateDoc applies one caller-side modification chosen by seed. The caller
// owns its documents, so this is legal; the library must not have kept
// anything that depends on the old contents.
func mutateDoc(root *any, seed uint64) bool {
	type slot struct {
		arr  []any
		m    map[string]any
		set  func(v any) // replace this container in its parent
		path int
	}
	var slots []slot
	var walk func(v any, set func(any), depth int)
	walk = func(v any, set func(any), depth int) {
		if depth > 6 || len(slots) > 64 {
			return
		}
		switch x := v.(type) {
		case []any:
			slots = append(slots, slot{arr: x, set: set})
			for i := range x {
				i := i
				walk(x[i], func(nv any) { x[i] = nv }, depth+1)
			}
		case map[string]any:
			slots = append(slots, slot{m: x, set: set})
			keys := make([]string, 0, len(x))
			for k := range x {
				keys = append(keys, k)
			}
			sort.Strings(keys)
			for _, k := range keys {
				k := k
				walk(x[k], func(nv any) { x[k] = nv }, depth+1)
			}
		}
	}
	walk(*root, func(nv any) { *root = nv }, 0)
	if len(slots) == 0 {
		return false
	}
	st := seed
	s := slots[splitmix64(&st)%uint64(len(slots))]
	nv := any(float64(splitmix64(&st) % 50))
	if splitmix64(&st)%3 == 0 {
		nv = "mut" + fmt.Sprint(splitmix64(&st)%7)
	}
	if s.arr != nil {
		switch splitmix64(&st) % 3 {
		case 0:
			if len(s.arr) > 0 {
				s.arr[splitmix64(&st)%uint64(len(s.arr))] = nv
				return true
			}
			fallthrough
		case 1:
			// the caller appends (within capacity if there is some)
			s.set(append(s.arr, nv))
			return true
		default:
			if len(s.arr) > 0 {
				s.set(s.arr[:len(s.arr)-1])
				return true
			}
			s.set(append(s.arr, nv))
			return true
		}
	}
	if s.m == nil {
		// the caller replaces its nil map by a real one
		s.set(map[string]any{"added": nv})
		return true
	}
	keys := make([]string, 0, len(s.m))
	for k := range s.m {
		keys = append(keys, k)
	}
	sort.Strings(keys)
	// records: prefer changing a member that expressions sort, group or filter by
	for _, k := range []string{"id", "name", "grp"} {
		if _, ok := s.m[k]; ok && splitmix64(&st)%3 == 0 {
			if k == "id" {
				s.m[k] = float64(splitmix64(&st) % 9)
			} else {
				s.m[k] = "mut" + fmt.Sprint(splitmix64(&st)%5)
			}
			return true
		}
	}
	switch splitmix64(&st) % 3 {
	case 0:
		if len(keys) > 0 {
			delete(s.m, keys[splitmix64(&st)%uint64(len(keys))])
			return true
		}
		fallthrough
	case 1:
		s.m["added"+fmt.Sprint(splitmix64(&st)%3)] = nv
	default:
		if len(keys) > 0 {
			s.m[keys[splitmix64(&st)%uint64(len(keys))]] = nv
		} else {
			s.m["added"] = nv
		}
	}
	return true
}

// ---------------------------------------------------------------------------
// C15: the same expression on equal documents under different map orders,
// layouts, compilations and repetitions.
// ---------------------------------------------------------------------------

type c15cmp struct {
	mode     *Mode
	an       analysis
	exact    bool // strict class: no enumeration anywhere
	errAny   bool
	panicAny bool // members are evaluated in map order somewhere: a panic matches any failure
}

func (c *c15cmp) key(o Outcome) string {
	switch o.Kind {
	case 'v':
		return "v:" + Canon(o.Val, c.mode, c.exact)
	case 'e':
		if c.errAny {
			return "fail"
		}
		return "e:" + o.Cat + ":" + o.Msg
	}
	if c.errAny {
		// several sub-expressions fail at once and one of the failures is a
		// panic (a C03 matter): which one is reported is the permitted variation
		return "fail"
	}
	if c.panicAny {
		// A panic can come out of constructs that cannot report an error (on the
		// pinned tree: a slice of a string with multi-byte characters), so the
		// static count of fallible members does not see it. If the expression
		// evaluates several members in map order, a panic of one member and an
		// error of another are "several sub-expressions fail at once".
		return "fail*"
	}
	return "p:" + o.Msg
}

// c15match compares two comparison keys; "fail*" matches any failure.
func c15match(a, b string) bool {
	if a == b {
		return true
	}
	isFail := func(s string) bool {
		return s == "fail" || s == "fail*" || strings.HasPrefix(s, "e:") || strings.HasPrefix(s, "p:")
	}
	return (a == "fail*" && isFail(b)) || (b == "fail*" && isFail(a))
}

func comparatorFor(spec ExprSpec) *c15cmp {
	c := &c15cmp{mode: mU}
	if spec.Tree != nil {
		c.mode, c.an = Analyze(spec.Tree)
	}
	c.exact = !c.an.Enum && c.mode.K == 'D'
	c.errAny = c.an.Enum || c.an.MultiFault
	c.panicAny = c.an.MapIter
	return c
}

func RunC15(w *Workload, st *Stats, maxYields uint64) *RunReport {
	rep := &RunReport{}
	spec := w.Exprs[0]
	cmp := comparatorFor(spec)
	text := spec.Text
	docEnc := w.Docs[0]
	st.Texts[hstr(0, text)] = struct{}{}
	switch {
	case cmp.mode.K == 'U':
		st.Unsafe++
	case cmp.exact:
		st.Strict++
	default:
		st.Enum++
	}
	if cmp.an.MultiFault {
		st.MultiFault++
	}
	type ev struct {
		pol    simrt.Policy
		how    string
		out    Outcome
		served uint64
		reord  uint64
	}
	var evs []ev
	var viol *Violation
	gcBetween := strings.Contains(w.Note, "gc-between")
	gcs := uint64(0)
	body := func() {
		compiled, cout := callCompile(text)
		for pi, pol := range w.Policies {
			for variant := 0; variant < 2; variant++ {
				if gcBetween {
					// earlier documents are garbage by now: let the allocator hand
					// their addresses to the next, equal document (fault F6)
					runtime.GC()
					gcs++
				}
				doc, err := DecOrd(docEnc, uint64(pi*2+variant)*0x9e3779b97f4a7c15)
				if err != nil {
					rep.Inconclusive = err.Error()
					return
				}
				simrt.SetPolicy(pol)
				s0, r0, _ := simrt.MapCounters()
				var o Outcome
				how := "one-shot Search, fresh document"
				if variant == 1 {
					how = "reused Expression, re-ordered document"
					if compiled == nil {
						o = cout
					} else {
						o = callExprSearch(compiled, doc)
					}
				} else {
					o = callSearch(text, doc)
				}
				s1, r1, _ := simrt.MapCounters()
				evs = append(evs, ev{pol, how, o, s1 - s0, r1 - r0})
			}
		}
		// long reuse: behaviour must not change after N calls on one Expression
		if strings.Contains(w.Note, "long-reuse") && compiled != nil {
			simrt.SetPolicy(w.Policies[0])
			first := callExprSearch(compiled, MustDec(docEnc))
			for i := 0; i < 140; i++ {
				// other compilations in between must not change a held Expression
				callCompile("churn_c15_" + strconv.Itoa(i))
				simrt.SetPolicy(w.Policies[0])
				o := callExprSearch(compiled, MustDec(docEnc))
				if o.Key() != first.Key() {
					viol = &Violation{Prop: "C15", Class: "nondeterminism", Sig: "nondeterminism",
						Detail: fmt.Sprintf("%q: call %d on one compiled Expression (same map order, equal documents) returns %s, the first call returned %s", text, i+2, trunc(o.Key(), 300), trunc(first.Key(), 300))}
					return
				}
			}
		}
		// dual execution under identical pinned seams: must be exactly equal
		for _, pol := range w.Policies {
			if pol.Kind == simrt.PolNative {
				continue
			}
			simrt.SetPolicy(pol)
			a := callSearch(text, MustDec(docEnc))
			simrt.SetPolicy(pol)
			b := callFresh(text, MustDec(docEnc), false)
			if a.Key() != b.Key() {
				viol = &Violation{Prop: "C15", Class: "nondeterminism", Sig: "nondeterminism",
					Detail: fmt.Sprintf("%q evaluated twice under the same map order %v on equal documents: %s vs %s", text, pol, trunc(a.Key(), 300), trunc(b.Key(), 300))}
				return
			}
			break
		}
	}
	res := simrt.Run([]func(){body}, w.Sched, maxYields)
	rep.Explicit = explicitOf(res, w.Sched)
	noteSchedule(st, w, res)
	st.GCs += gcs
	dg := hmix(res.Digest, res.MapDigest)
	if viol != nil {
		rep.Viol = viol
		return rep
	}
	if rep.Inconclusive != "" {
		return rep
	}
	nontriv := false
	for i, e := range evs {
		st.Calls++
		switch e.out.Kind {
		case 'v':
			st.OkCalls++
			if e.out.Val != nil {
				st.NonNull++
			}
		case 'e':
			st.ErrCalls++
			if runtimeCat(e.out.Cat) {
				st.Aborted++
			}
		case 'p':
			st.PanicCalls++
		}
		if e.reord > 0 && e.out.Kind == 'v' && e.out.Val != nil {
			nontriv = true
		}
		if e.pol.Kind != simrt.PolNative {
			dg = hstr(dg, e.out.Key())
		}
		if i == 0 || cmp.mode.K == 'U' {
			continue
		}
		st.Compared++
		a, b := cmp.key(evs[0].out), cmp.key(e.out)
		if !c15match(a, b) {
			rep.Viol = &Violation{Prop: "C15", Class: "order-dependence", Sig: "order-dependence",
				Detail: fmt.Sprintf("%q (mode %s): under map order %v [%s] -> %s ; under %v [%s] -> %s", text, cmp.mode, evs[0].pol, evs[0].how, trunc(evs[0].out.Key(), 300), e.pol, e.how, trunc(e.out.Key(), 300))}
			return rep
		}
	}
	if cmp.mode.K == 'U' {
		// same-policy pairs only: (fresh, reused) under each pinned policy
		for i := 0; i+1 < len(evs); i += 2 {
			if evs[i].pol.Kind == simrt.PolNative {
				continue
			}
			st.Compared++
			if evs[i].out.Key() != evs[i+1].out.Key() {
				rep.Viol = &Violation{Prop: "C15", Class: "nondeterminism", Sig: "nondeterminism",
					Detail: fmt.Sprintf("%q under the same map order %v: one-shot %s, reused expression on a re-built equal document %s", text, evs[i].pol, trunc(evs[i].out.Key(), 300), trunc(evs[i+1].out.Key(), 300))}
				return rep
			}
		}
	}
	if nontriv {
		st.NontrivTexts[hstr(0, text)] = struct{}{}
	}
	if strings.Contains(w.Note, "twins") && len(w.Exprs) > 1 {
		// the twin text, evaluated after the first one in this process
		simrt.SetPolicy(w.Policies[0])
		o2 := callSearch(w.Exprs[1].Text, MustDec(docEnc))
		rep.Tuples = append(rep.Tuples, Tuple{Text: w.Exprs[1].Text, Doc: docEnc, Pol: w.Policies[0], OneShot: true, Key: o2.Key(), Always: true})
	}
	if cmp.mode.K != 'U' {
		rep.Tuples = append(rep.Tuples, Tuple{Text: text, Doc: docEnc, Pol: simrt.Policy{Kind: simrt.PolNative}, OneShot: true, Key: cmp.key(evs[0].out), Mode: cmp.mode, Exact: cmp.exact, ErrAny: cmp.errAny, PanicAny: cmp.panicAny})
	} else {
		rep.Tuples = append(rep.Tuples, Tuple{Text: text, Doc: docEnc, Pol: w.Policies[0], OneShot: true, Key: evs[0].out.Key()})
	}
	if strings.Contains(w.Note, "twins") {
		for i := range rep.Tuples {
			rep.Tuples[i].Always = true
		}
	}
	rep.Digest = dg
	return rep
}

func mustUnJSON(s string, v any) {
	if err := json.Unmarshal([]byte(s), v); err != nil {
		panic("harness: " + err.Error())
	}
}
