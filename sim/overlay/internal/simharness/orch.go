package main

import (
	"bytes"
	"context"
	"encoding/json"
	"flag"
	"fmt"
	"os"
	"os/exec"
	"path/filepath"
	"regexp"
	"runtime"
	"sort"
	"strings"
	"sync"
	"time"

	"github.com/woodsbury/jmespath/internal/simrt"
)

// ---------------------------------------------------------------------------
// Orchestrator: seeded search over workloads, schedules, map orders and
// fault mixes in many short simulated runs on all cores; minimisation and
// replay of failures; evidence.
// ---------------------------------------------------------------------------

type job struct {
	name     string
	kind     string // plain | race | cold | sweep | oracle
	bin      string
	args     []string
	out      string
	errf     string
	from, to uint64
	code     int
	timedOut bool
	wall     time.Duration
	resumed  bool
	wo       *WorkerOut
}

const raceEnv = "GORACE=halt_on_error=0 exitcode=66 atexit_sleep_ms=0"

func runJob(j *job, timeout time.Duration) {
	ctx, cancel := context.WithTimeout(context.Background(), timeout)
	defer cancel()
	cmd := exec.CommandContext(ctx, j.bin, j.args...)
	mp := "GOMAXPROCS=4"
	if j.kind == "oracle" {
		// the oracle processes differ from the workers in everything a correct
		// library must not depend on
		mp = []string{"GOMAXPROCS=1", "GOMAXPROCS=16", "GOMAXPROCS=3"}[j.from%3]
	}
	cmd.Env = append(os.Environ(), raceEnv, mp, "GOTRACEBACK=single")
	if j.kind == "oracle" {
		cmd.Env = append(cmd.Env, "GOGC=25", "TZ=Pacific/Kiritimati", "LANG=tr_TR.UTF-8")
	}
	ef, err := os.Create(j.errf)
	if err != nil {
		j.code = -1
		return
	}
	defer ef.Close()
	cmd.Stderr = ef
	cmd.Stdout = ef
	t0 := time.Now()
	err = cmd.Run()
	j.wall = time.Since(t0)
	if ctx.Err() != nil {
		j.timedOut = true
		j.code = -2
		return
	}
	if err != nil {
		if ee, ok := err.(*exec.ExitError); ok {
			j.code = ee.ExitCode()
		} else {
			j.code = -1
		}
	}
	if b, err := os.ReadFile(j.out); err == nil {
		var wo WorkerOut
		if json.Unmarshal(b, &wo) == nil {
			j.wo = &wo
		}
	}
}

func runPool(jobs []*job, par int, timeout time.Duration) {
	sem := make(chan struct{}, par)
	var wg sync.WaitGroup
	for _, j := range jobs {
		wg.Add(1)
		sem <- struct{}{}
		go func(j *job) {
			defer wg.Done()
			defer func() { <-sem }()
			runJob(j, timeout)
		}(j)
	}
	wg.Wait()
}

type found struct {
	jobFrom uint64
	jobKind string
	viol    *Violation
	wl      *Workload
	build   string // plain | race
	race    string // race report text
	rng     [2]uint64
	isRng   bool
}

var raceFrame = regexp.MustCompile(`(?m)^\s+(github\.com/woodsbury/jmespath\S*?)\(\)\s*$`)

// raceSig extracts the first repository frame of each of the two stacks of
// the first race report.
func raceSig(text string) string {
	i := strings.Index(text, "WARNING: DATA RACE")
	if i < 0 {
		return ""
	}
	text = text[i:]
	if j := strings.Index(text, "=================="); j > 0 {
		text = text[:j]
	}
	blocks := regexp.MustCompile(`(?m)^(Write|Read|Previous write|Previous read|Atomic [a-z]+|Previous atomic [a-z]+) at .*$`).FindAllStringIndex(text, -1)
	var fr []string
	for bi, b := range blocks {
		end := len(text)
		if bi+1 < len(blocks) {
			end = blocks[bi+1][0]
		}
		seg := text[b[1]:end]
		if k := strings.Index(seg, "Goroutine "); k >= 0 {
			seg = seg[:k]
		}
		name := "?"
		for _, m := range raceFrame.FindAllStringSubmatch(seg, -1) {
			if strings.Contains(m[1], "/internal/sim") {
				continue
			}
			name = strings.TrimPrefix(m[1], "github.com/woodsbury/jmespath")
			break
		}
		fr = append(fr, name)
		if len(fr) == 2 {
			break
		}
	}
	sort.Strings(fr)
	return strings.Join(fr, " | ")
}

func firstRaceReport(text string) string {
	i := strings.Index(text, "WARNING: DATA RACE")
	if i < 0 {
		return ""
	}
	text = text[i:]
	if j := strings.Index(text[10:], "=================="); j > 0 {
		text = text[:j+10]
	}
	return trunc(text, 6000)
}

type orch struct {
	prop, tier      string
	seed            uint64
	dir             string // scratch directory for job files
	plain, raceBin  string
	par             int
	known           []knownFinding
	replays         string
	evidence        string
	sitesFile       string
	t0              time.Time
	trouble         []string
	skipped         []uint64
	notes           []string
	replayTimeout   time.Duration
	shrinkLimit     int
	shrinkBudget    time.Duration
	maxOps          int
	seedsTried      []uint64
	jobsDone        []*job
	oracleChecked   int
	oracleProcesses int
}

type knownFinding struct {
	Property    string `json:"property"`
	Class       string `json:"class"`
	Match       string `json:"match"`
	Description string `json:"description"`
}

func (o *orch) troublef(f string, a ...any) {
	o.trouble = append(o.trouble, fmt.Sprintf(f, a...))
}

func lastBegin(errText string) (uint64, bool) {
	i := strings.LastIndex(errText, "SIM-BEGIN ")
	if i < 0 {
		return 0, false
	}
	var n uint64
	if _, err := fmt.Sscanf(errText[i:], "SIM-BEGIN %d", &n); err != nil {
		return 0, false
	}
	return n, true
}

// replayOnce runs one workload in a fresh process and classifies the result.
func (o *orch) replayOnce(w *Workload, build string) (class, sig, text string) {
	f, err := os.CreateTemp(o.dir, "cand-*.json")
	if err != nil {
		return "trouble", "", err.Error()
	}
	path := f.Name()
	f.Close()
	defer os.Remove(path)
	writeJSONFile(path, ReplayFile{Property: w.Prop, Build: build, Workload: w})
	bin := o.plain
	if build == "race" {
		bin = o.raceBin
	}
	ctx, cancel := context.WithTimeout(context.Background(), o.replayTimeout)
	defer cancel()
	cmd := exec.CommandContext(ctx, bin, "replay", path)
	cmd.Env = append(os.Environ(), raceEnv, "GOMAXPROCS=4", "GOTRACEBACK=single")
	var out, errb bytes.Buffer
	cmd.Stdout, cmd.Stderr = &out, &errb
	err = cmd.Run()
	if ctx.Err() != nil {
		return "timeout", "", ""
	}
	code := 0
	if ee, ok := err.(*exec.ExitError); ok {
		code = ee.ExitCode()
	} else if err != nil {
		return "trouble", "", err.Error()
	}
	so, se := out.String(), errb.String()
	switch {
	case strings.Contains(se, "WARNING: DATA RACE"):
		return "data-race", raceSig(se), firstRaceReport(se)
	case code == 67 || strings.Contains(so, "SIM-NOPROGRESS"):
		return "no-progress", "no-progress", ""
	case code == 68 || strings.Contains(so, "SIM-DEADLOCK"):
		return "deadlock", "deadlock", ""
	case strings.Contains(se, "fatal error:"):
		return "fatal", "fatal", trunc(se, 3000)
	case code == exitViolation:
		m := regexp.MustCompile(`SIM-VIOLATION class=(\S+) sig=(\S+)`).FindStringSubmatch(so)
		if m != nil {
			return m[1], m[2], strings.TrimSpace(so)
		}
		return "trouble", "", so + se
	case code == 0:
		return "ok", "", so
	case code == exitTrouble && strings.Contains(so, "SIM-INCONCLUSIVE"):
		return "inconclusive", "", so
	}
	return "trouble", "", fmt.Sprintf("exit %d: %s %s", code, trunc(so, 500), trunc(se, 1500))
}

// replayPrefix re-runs worker range [from,to) in a fresh process and returns
// the class of the violation it ends with ("ok" if none).
func (o *orch) replayPrefix(from, to uint64, build string) (class string, wo *WorkerOut) {
	bin := o.plain
	if build == "race" {
		bin = o.raceBin
	}
	f, err := os.CreateTemp(o.dir, "prefix-*.json")
	if err != nil {
		return "trouble", nil
	}
	out := f.Name()
	f.Close()
	defer os.Remove(out)
	j := &job{name: "prefix", kind: build, bin: bin, out: out, errf: out + ".err", from: from, to: to}
	j.args = []string{"worker", "-prop", o.prop, "-seed", fmt.Sprint(o.seed), "-from", fmt.Sprint(from), "-to", fmt.Sprint(to), "-out", out, "-maxops", fmt.Sprint(o.maxOps)}
	runJob(j, 20*time.Minute)
	defer os.Remove(j.errf)
	if j.wo != nil && j.wo.Viol != nil {
		return j.wo.Viol.Class, j.wo
	}
	errText := ""
	if b, err := os.ReadFile(j.errf); err == nil {
		errText = string(b)
	}
	switch {
	case j.code == 0:
		return "ok", j.wo
	case j.code == 67:
		return "no-progress", j.wo
	case j.code == 68:
		return "deadlock", j.wo
	case strings.Contains(errText, "fatal error:"):
		return "fatal", j.wo
	}
	return "trouble", j.wo
}

func cmdOrch(args []string) {
	fs := flag.NewFlagSet("orch", flag.ExitOnError)
	o := &orch{t0: time.Now()}
	fs.StringVar(&o.prop, "prop", "", "property id")
	fs.StringVar(&o.tier, "tier", "quick", "quick | thorough")
	fs.Uint64Var(&o.seed, "seed", 1, "VERIF_SEED")
	fs.StringVar(&o.dir, "dir", "", "scratch directory for job files")
	fs.StringVar(&o.raceBin, "race-bin", "", "path of the -race build of this program")
	fs.StringVar(&o.replays, "replays", "", "directory receiving replay files")
	fs.StringVar(&o.evidence, "evidence", "", "evidence file to write")
	fs.StringVar(&o.sitesFile, "sites", "", "sites.json written by the instrumenter")
	knownPath := fs.String("known", "", "known findings file")
	replayFile := fs.String("replay", "", "replay this file instead of searching")
	scale := fs.Float64("scale", 1, "multiply run counts")
	fs.IntVar(&o.par, "jobs", runtime.NumCPU(), "parallel processes")
	fs.Parse(args)
	o.plain, _ = os.Executable()
	o.replayTimeout = 120 * time.Second
	o.shrinkLimit = 400
	o.shrinkBudget = 100 * time.Second
	if o.dir == "" {
		fmt.Fprintln(os.Stderr, "orch: -dir required")
		os.Exit(exitTrouble)
	}
	os.MkdirAll(o.dir, 0o755)
	if *knownPath != "" {
		if b, err := os.ReadFile(*knownPath); err == nil {
			var kf struct {
				Findings []knownFinding `json:"findings"`
			}
			if err := json.Unmarshal(b, &kf); err != nil {
				fmt.Fprintln(os.Stderr, "orch: bad known findings file:", err)
				os.Exit(exitTrouble)
			}
			o.known = kf.Findings
		}
	}
	if *replayFile != "" {
		os.Exit(o.doReplay(*replayFile))
	}
	os.Exit(o.search(*scale))
}

type counts struct {
	tupleEvery               uint64
	plain, race, cold, sweep uint64
	hot, hotRace             uint64 // C07: runs in the hot index space (see HotBase)
	maxOps                   int
	chunk                    uint64
}

func (o *orch) plan(scale float64) counts {
	var c counts
	thorough := o.tier == "thorough"
	switch o.prop {
	case "C06":
		c = counts{plain: 48000, maxOps: 14, chunk: 500, tupleEvery: 4}
		if thorough {
			c = counts{plain: 600000, maxOps: 40, chunk: 2500, tupleEvery: 25}
		}
	case "C07":
		c = counts{plain: 6400, race: 1920, cold: 480, sweep: 24, chunk: 100}
		if thorough {
			c = counts{plain: 400000, race: 60000, cold: 12000, sweep: 64, chunk: 1000, tupleEvery: 10}
		}
	case "C15":
		c = counts{plain: 48000, chunk: 375, tupleEvery: 4}
		if thorough {
			c = counts{plain: 800000, chunk: 2500, tupleEvery: 8}
		}
	default:
		fmt.Fprintln(os.Stderr, "orch: unknown property", o.prop)
		os.Exit(exitTrouble)
	}
	c.plain = uint64(float64(c.plain) * scale)
	c.race = uint64(float64(c.race) * scale)
	c.cold = uint64(float64(c.cold) * scale)
	c.sweep = uint64(float64(c.sweep) * scale)
	if o.prop == "C07" {
		// budget for the hot index space: substantial only when the repository
		// has accesses to shared state (package-level variables, sync, atomics)
		c.hot, c.hotRace = 64, 32
		if o.hotSites() > 0 {
			c.hot, c.hotRace = 9600, 1600
			if thorough {
				c.hot, c.hotRace = 200000, 30000
			}
			if os.Getenv("JMSIM_HOT_KINDS") == "" {
				// shared state exists but no run shape reached it when probed
				// sequentially (on the pinned tree: one read-only table of the
				// syntax-tree printer): a quarter of the budget, over all shapes
				c.hot, c.hotRace = c.hot/4, c.hotRace/4
			}
		}
		c.hot = uint64(float64(c.hot) * scale)
		c.hotRace = uint64(float64(c.hotRace) * scale)
	}
	if c.plain == 0 {
		c.plain = 1
	}
	if c.tupleEvery == 0 {
		c.tupleEvery = 1
	}
	return c
}

// hotSites: number of yield sites the instrumenter tagged as next to a
// shared-state access (0 on a tree without package-level state).
func (o *orch) hotSites() int {
	if o.sitesFile == "" {
		return 0
	}
	b, err := os.ReadFile(o.sitesFile)
	if err != nil {
		return 0
	}
	var rep struct {
		HotSites int `json:"hot_sites"`
	}
	json.Unmarshal(b, &rep)
	return rep.HotSites
}

// probeHotKinds runs the hot probe in a process of its own and restricts the
// hot index space (for every child process, through the environment) to the
// run shapes that touch shared state.
func (o *orch) probeHotKinds() {
	if o.prop != "C07" || o.hotSites() == 0 {
		return
	}
	ctx, cancel := context.WithTimeout(context.Background(), 5*time.Minute)
	defer cancel()
	cmd := exec.CommandContext(ctx, o.plain, "hotprobe", "-seed", fmt.Sprint(o.seed))
	cmd.Env = append(os.Environ(), "GOMAXPROCS=4")
	out, _ := cmd.Output()
	m := regexp.MustCompile(`(?m)^HOT-KINDS (\S+)$`).FindStringSubmatch(string(out))
	if m == nil {
		fmt.Println("jmsim: hot probe: no run shape touches shared state when run sequentially (or the probe died); the hot space uses all shapes")
		return
	}
	os.Setenv("JMSIM_HOT_KINDS", m[1])
	fmt.Println("jmsim: hot probe: run shapes that touch shared state:", m[1])
}

func (o *orch) search(scale float64) int {
	o.probeHotKinds()
	c := o.plan(scale)
	o.maxOps = c.maxOps
	if o.maxOps == 0 {
		o.maxOps = 12
	}
	var jobs []*job
	mk := func(kind, bin string, from, to uint64, extra ...string) *job {
		name := fmt.Sprintf("%s-%d-%d", kind, from, to)
		j := &job{name: name, kind: kind, bin: bin, from: from, to: to,
			out: filepath.Join(o.dir, name+".json"), errf: filepath.Join(o.dir, name+".err")}
		sub := "worker"
		if kind == "sweep" {
			sub = "sweep"
		}
		j.args = []string{sub, "-prop", o.prop, "-seed", fmt.Sprint(o.seed), "-from", fmt.Sprint(from), "-to", fmt.Sprint(to), "-out", j.out,
			"-maxops", fmt.Sprint(o.maxOps)}
		j.args = append(j.args, extra...)
		return j
	}
	idx := uint64(0)
	first := true
	for n := uint64(0); n < c.plain; n += c.chunk {
		to := n + c.chunk
		if to > c.plain {
			to = c.plain
		}
		j := mk("plain", o.plain, idx+n, idx+to, "-tuples", filepath.Join(o.dir, fmt.Sprintf("tuples-%d.jsonl", n)), "-tuple-every", fmt.Sprint(c.tupleEvery))
		if first {
			j.args = append(j.args, "-samples", "3")
			first = false
		}
		jobs = append(jobs, j)
	}
	idx += c.plain
	if o.raceBin != "" {
		rchunk := c.chunk / 2
		if rchunk == 0 {
			rchunk = 1
		}
		for n := uint64(0); n < c.race; n += rchunk {
			to := n + rchunk
			if to > c.race {
				to = c.race
			}
			jobs = append(jobs, mk("race", o.raceBin, idx+n, idx+to))
		}
		idx += c.race
		for n := uint64(0); n < c.cold; n++ {
			jobs = append(jobs, mk("cold", o.raceBin, idx+n, idx+n+1))
		}
		idx += c.cold
	} else if c.race+c.cold > 0 {
		o.troublef("race build missing")
	}
	for n := uint64(0); n < c.sweep; n++ {
		jobs = append(jobs, mk("sweep", o.plain, idx+n, idx+n+1))
	}
	idx += c.sweep
	for n := uint64(0); n < c.hot; n += c.chunk {
		to := n + c.chunk
		if to > c.hot {
			to = c.hot
		}
		jobs = append(jobs, mk("plain", o.plain, HotBase+n, HotBase+to, "-tuples", filepath.Join(o.dir, fmt.Sprintf("tuples-hot-%d.jsonl", n)), "-tuple-every", fmt.Sprint(c.tupleEvery*4)))
	}
	if o.raceBin != "" {
		for n := uint64(0); n < c.hotRace; n += c.chunk / 2 {
			to := n + c.chunk/2
			if to > c.hotRace {
				to = c.hotRace
			}
			jobs = append(jobs, mk("race", o.raceBin, HotBase+c.hot+n, HotBase+c.hot+to))
		}
	}
	fmt.Printf("jmsim: property=%s tier=%s VERIF_SEED=%d jobs=%d processes=%d (plain runs %d, race runs %d, cold race processes %d, sweeps %d, hot-space runs %d+%d, hot sites %d)\n",
		o.prop, o.tier, o.seed, o.par, len(jobs), c.plain, c.race, c.cold, c.sweep, c.hot, c.hotRace, o.hotSites())
	timeout := 30 * time.Minute
	if o.tier == "thorough" {
		timeout = 5 * time.Hour
	}
	runPool(jobs, o.par, timeout)
	// a single-client run that exceeds the yield budget is a matter of cost:
	// skip that one run and continue with the rest of its range
	if o.prop != "C07" {
		for round := 0; round < 20; round++ {
			var more []*job
			for _, j := range jobs {
				if j.code != 67 || j.resumed {
					continue
				}
				j.resumed = true
				errText := ""
				if b, err := os.ReadFile(j.errf); err == nil {
					errText = string(b)
				}
				n, ok := lastBegin(errText)
				if !ok {
					continue
				}
				o.skipped = append(o.skipped, n)
				if n+1 < j.to {
					nj := mk(j.kind, j.bin, n+1, j.to, "-tuples", filepath.Join(o.dir, fmt.Sprintf("tuples-r%d-%d.jsonl", round, n)), "-tuple-every", fmt.Sprint(c.tupleEvery))
					more = append(more, nj)
				}
			}
			if len(more) == 0 {
				break
			}
			runPool(more, o.par, timeout)
			jobs = append(jobs, more...)
		}
	}
	o.jobsDone = jobs

	var finds []found
	agg := newAgg()
	for _, j := range jobs {
		errText := ""
		if b, err := os.ReadFile(j.errf); err == nil {
			errText = string(b)
		}
		build := "plain"
		if j.kind == "race" || j.kind == "cold" {
			build = "race"
		}
		if j.wo != nil {
			agg.add(j)
		}
		switch {
		case j.timedOut:
			o.troublef("job %s timed out", j.name)
		case j.wo != nil && j.wo.Viol != nil:
			f := found{viol: j.wo.Viol, wl: j.wo.Workload, build: build, jobFrom: j.from, jobKind: j.kind}
			if j.wo.Viol.Class == "data-race" {
				f.race = firstRaceReport(errText)
				f.viol.Sig = "data-race " + raceSig(errText)
			}
			finds = append(finds, f)
		case j.wo != nil && j.wo.Inconcl != "":
			o.troublef("job %s inconclusive: %s", j.name, j.wo.Inconcl)
		case j.code == 0 && j.wo != nil:
			if strings.Contains(errText, "WARNING: DATA RACE") {
				// a race reported outside any run (should not happen)
				o.troublef("job %s: race report outside a run: %s", j.name, trunc(firstRaceReport(errText), 800))
			}
		default:
			// the process died: which run was in flight?
			n, ok := lastBegin(errText)
			if !ok {
				o.troublef("job %s failed (exit %d) before any run: %s", j.name, j.code, trunc(errText, 600))
				break
			}
			w := genWorkload(o.prop, o.seed, n, o.maxOps)
			switch {
			case j.code == 67 && o.prop != "C07":
				// skipped and resumed above (cost is not decided here); the partial
				// statistics of the interrupted process are lost
			case j.code == 67 && func() bool {
				// concurrent clients: is it slow even when run one after the other?
				sw := w.clone()
				sw.Sched = simrt.Schedule{Kind: simrt.StratExplicit, Seed: w.Sched.Seed}
				cl, _, _ := o.replayOnce(sw, build)
				return cl == "no-progress" || cl == "timeout"
			}():
				o.troublef("run %d of job %s exceeded the yield budget also when its clients run one after the other (cost, not decided here)", n, j.name)
			case j.code == 67:
				finds = append(finds, found{viol: &Violation{Prop: o.prop, Class: "no-progress", Sig: "no-progress", Detail: "a run exceeded the yield budget"}, wl: w, build: build, jobFrom: j.from, jobKind: j.kind})
			case j.code == 68:
				finds = append(finds, found{viol: &Violation{Prop: o.prop, Class: "deadlock", Sig: "deadlock", Detail: "all simulated clients are blocked"}, wl: w, build: build, jobFrom: j.from, jobKind: j.kind})
			case strings.Contains(errText, "fatal error:"):
				finds = append(finds, found{viol: &Violation{Prop: o.prop, Class: "fatal", Sig: "fatal", Detail: trunc(errText[strings.Index(errText, "fatal error:"):], 1500)}, wl: w, build: build, jobFrom: j.from, jobKind: j.kind})
			default:
				o.troublef("job %s crashed (exit %d) in run %d: %s", j.name, j.code, n, trunc(errText, 1200))
			}
		}
	}

	// oracle process(es): re-evaluate every recorded call without history
	if len(finds) == 0 {
		finds = append(finds, o.oraclePhase(c)...)
	}

	// report
	code := 0
	reported := map[string]bool{}
	nviol := 0
	for _, f := range finds {
		key := f.viol.Class + "|" + f.viol.Sig
		if reported[key] || len(reported) >= 4 {
			continue
		}
		reported[key] = true
		r := o.reportViolation(f)
		if r > code {
			code = r
		}
		if r == exitViolation {
			nviol++
		}
	}
	if nviol > 0 {
		code = exitViolation // a confirmed, replayable violation outranks machinery trouble
	}
	if len(o.trouble) > 0 {
		for _, t := range o.trouble {
			fmt.Println("TROUBLE:", t)
		}
		if code == 0 {
			code = exitTrouble
		}
	}
	o.writeEvidence(agg, c, nviol)
	wall := time.Since(o.t0).Seconds()
	fmt.Printf("jmsim: %s %s done in %.1fs: %d simulated runs, %d calls, %d yields, %d preemptions, %d map reorderings, %d oracle re-evaluations, exit %d\n",
		o.prop, o.tier, wall, agg.s.Runs, agg.s.Calls, agg.s.Steps, agg.s.Switches, agg.s.MapReord, o.oracleChecked, code)
	return code
}

func (o *orch) oraclePhase(c counts) []found {
	files, _ := filepath.Glob(filepath.Join(o.dir, "tuples-*.jsonl"))
	sort.Strings(files)
	if len(files) == 0 {
		return nil
	}
	groups := o.par
	if groups > len(files) {
		groups = len(files)
	}
	var jobs []*job
	for g := 0; g < groups; g++ {
		j := &job{name: fmt.Sprintf("oracle-%d", g), kind: "oracle", bin: o.plain, from: uint64(g),
			out: filepath.Join(o.dir, fmt.Sprintf("oracle-%d.json", g)), errf: filepath.Join(o.dir, fmt.Sprintf("oracle-%d.err", g))}
		j.args = []string{"oracle", "-seed", fmt.Sprint(o.seed + uint64(g)), "-out", j.out}
		for i := g; i < len(files); i += groups {
			j.args = append(j.args, files[i])
		}
		jobs = append(jobs, j)
	}
	runPool(jobs, o.par, 60*time.Minute)
	var finds []found
	for _, j := range jobs {
		o.oracleProcesses++
		b, err := os.ReadFile(j.out)
		if err != nil {
			eb, _ := os.ReadFile(j.errf)
			o.troublef("oracle process %s failed (exit %d): %s", j.name, j.code, trunc(string(eb), 800))
			continue
		}
		var r struct {
			Checked  int    `json:"checked"`
			Mismatch *Tuple `json:"mismatch"`
			Got      string `json:"got"`
		}
		json.Unmarshal(b, &r)
		o.oracleChecked += r.Checked
		if r.Mismatch != nil {
			t := r.Mismatch
			class := "outcome-mismatch"
			what := "in the simulated history/concurrent phase (and its in-process reference)"
			if o.prop == "C15" {
				class = "nondeterminism"
				what = "in the first process"
			}
			w := &Workload{Prop: o.prop, Seed: o.seed, Docs: []string{t.Doc}, Exprs: []ExprSpec{{Text: t.Text}}, Note: "oracle-process mismatch"}
			finds = append(finds, found{isRng: true, rng: [2]uint64{0, c.plain}, build: "plain", wl: w,
				viol: &Violation{Prop: o.prop, Class: class, Sig: class + "-across-processes",
					Detail: fmt.Sprintf("%q on %s: %s %s, but a fresh process that never ran the history returns %s", t.Text, trunc(t.Doc, 300), trunc(t.Key, 300), what, trunc(r.Got, 300))}})
		}
	}
	return finds
}

func (o *orch) isKnown(f found) *knownFinding {
	hay := f.viol.Class + " " + f.viol.Sig + " " + f.viol.Detail
	if f.wl != nil {
		for _, e := range f.wl.Exprs {
			hay += " " + e.Text
		}
	}
	for i := range o.known {
		k := &o.known[i]
		if k.Property == o.prop && (k.Class == "" || k.Class == f.viol.Class) && k.Match != "" && strings.Contains(hay, k.Match) {
			return k
		}
	}
	return nil
}

func (o *orch) reportViolation(f found) int {
	fmt.Printf("jmsim: candidate violation class=%s sig=%q build=%s: %s\n", f.viol.Class, f.viol.Sig, f.build, trunc(f.viol.Detail, 600))
	rf := ReplayFile{Property: o.prop, Build: f.build, Violation: f.viol, Workload: f.wl, Seed: o.seed, RaceText: f.race, HotKinds: os.Getenv("JMSIM_HOT_KINDS")}
	if f.isRng {
		rf.Note = fmt.Sprintf("found by the oracle process: replay runs worker range [%d,%d) of VERIF_SEED %d and then the oracle", f.rng[0], f.rng[1], o.seed)
		rf.Workload.Note = fmt.Sprintf("range %d %d %d", f.rng[0], f.rng[1], o.maxOps)
	} else {
		// confirm in a fresh process, then minimise while the same class persists
		wantSig := f.viol.Sig
		same := func(w *Workload) bool {
			cl, sig, _ := o.replayOnce(w, f.build)
			if cl != f.viol.Class {
				return false
			}
			// any data race is the same violation class; the racing frames are
			// kept in the report but not required to stay identical
			_ = sig
			_ = wantSig
			return true
		}
		if !same(f.wl) && (f.jobKind == "plain" || f.jobKind == "race") && f.wl.Index > f.jobFrom {
			// the run may depend on state left behind by earlier runs of the same
			// process (a polluted global): replay a growing window of preceding
			// run indices in a fresh process
			idx := f.wl.Index
			for win := uint64(1); ; win *= 2 {
				from := f.jobFrom
				if idx-f.jobFrom > win {
					from = idx - win
				}
				if cl, _ := o.replayPrefix(from, idx+1, f.build); cl == f.viol.Class {
					rf.Note = fmt.Sprintf("needs state left by preceding runs of the same process: replay runs worker indices [%d,%d] of VERIF_SEED %d in one fresh %s process", from, idx, o.seed, f.build)
					rf.Workload.Note = fmt.Sprintf("prefix %d %d %d", from, idx+1, o.maxOps)
					if k := o.isKnown(found{viol: rf.Violation, wl: rf.Workload}); k != nil {
						fmt.Printf("KNOWN-FINDING: property=%s %s\n", o.prop, k.Description)
						return 0
					}
					return o.emit(rf)
				}
				if from == f.jobFrom {
					break
				}
			}
		}
		if !same(f.wl) {
			// not reproducible in a fresh process: global state from earlier runs
			// of the same worker may be needed, or an uncontrolled source of
			// nondeterminism exists. Never report what cannot be replayed.
			cl, sig, txt := o.replayOnce(f.wl, f.build)
			o.troublef("violation %s (%s) found in a batch did not reproduce in a fresh process (got %s %s %s); workload kept in %s",
				f.viol.Class, trunc(f.viol.Detail, 300), cl, sig, trunc(txt, 200), o.dir)
			writeJSONFile(filepath.Join(o.dir, "unreproduced.json"), rf)
			return exitTrouble
		}
		min, tests := Shrink(f.wl, same, o.shrinkLimit, o.shrinkBudget)
		if !same(min) {
			min = f.wl
		}
		cl, sig, txt := o.replayOnce(min, f.build)
		_ = cl
		if f.viol.Class == "data-race" {
			rf.RaceText = txt
			rf.Violation.Sig = "data-race " + sig
		} else if txt != "" {
			rf.Violation.Detail = txt
		}
		rf.Workload = min
		rf.Note = fmt.Sprintf("minimised with %d fresh-process replays; original run index %d", tests, f.wl.Index)
	}
	if k := o.isKnown(found{viol: rf.Violation, wl: rf.Workload}); k != nil {
		fmt.Printf("KNOWN-FINDING: property=%s %s\n", o.prop, k.Description)
		return 0
	}
	return o.emit(rf)
}

func (o *orch) emit(rf ReplayFile) int {
	os.MkdirAll(o.replays, 0o755)
	h := hstr(hstr(o.seed, rf.Violation.Sig), mustJSON(rf.Workload))
	path := filepath.Join(o.replays, fmt.Sprintf("%s-%d-%08x.json", o.prop, o.seed, uint32(h)))
	b, _ := json.MarshalIndent(rf, "", " ")
	os.WriteFile(path, b, 0o644)
	fmt.Printf("jmsim: %s\n", trunc(rf.Violation.Detail, 1500))
	if rf.RaceText != "" {
		fmt.Println(trunc(rf.RaceText, 3000))
	}
	fmt.Printf("VIOLATION property=%s replay=%s\n", o.prop, path)
	return exitViolation
}

// doReplay re-executes a replay file in a fresh process and reports whether
// the recorded violation shows again.
func (o *orch) doReplay(path string) int {
	b, err := os.ReadFile(path)
	if err != nil {
		fmt.Fprintln(os.Stderr, "orch:", err)
		return exitTrouble
	}
	var rf ReplayFile
	if err := json.Unmarshal(b, &rf); err != nil || rf.Workload == nil {
		fmt.Fprintln(os.Stderr, "orch: bad replay file")
		return exitTrouble
	}
	o.prop = rf.Property
	if rf.HotKinds != "" {
		os.Setenv("JMSIM_HOT_KINDS", rf.HotKinds)
	}
	if strings.HasPrefix(rf.Workload.Note, "range ") {
		var from, to uint64
		var maxOps int
		fmt.Sscanf(rf.Workload.Note, "range %d %d %d", &from, &to, &maxOps)
		o.seed = rf.Seed
		o.maxOps = maxOps
		c := counts{plain: to - from, chunk: (to - from + uint64(o.par) - 1) / uint64(o.par), maxOps: maxOps}
		o.tier = "replay"
		// same partition as the original search is not required: the oracle
		// compares per call
		var jobs []*job
		for n := from; n < to; n += c.chunk {
			e := n + c.chunk
			if e > to {
				e = to
			}
			name := fmt.Sprintf("plain-%d-%d", n, e)
			j := &job{name: name, kind: "plain", bin: o.plain, from: n, to: e, out: filepath.Join(o.dir, name+".json"), errf: filepath.Join(o.dir, name+".err")}
			j.args = []string{"worker", "-prop", o.prop, "-seed", fmt.Sprint(o.seed), "-from", fmt.Sprint(n), "-to", fmt.Sprint(e), "-out", j.out, "-maxops", fmt.Sprint(maxOps),
				"-tuples", filepath.Join(o.dir, fmt.Sprintf("tuples-%d.jsonl", n))}
			jobs = append(jobs, j)
		}
		runPool(jobs, o.par, time.Hour)
		fs := o.oraclePhase(c)
		if len(fs) > 0 {
			fmt.Printf("jmsim: reproduced: %s\nVIOLATION property=%s replay=%s\n", fs[0].viol.Detail, o.prop, path)
			return exitViolation
		}
		fmt.Println("jmsim: replay did not show the violation")
		return 0
	}
	if strings.HasPrefix(rf.Workload.Note, "prefix ") {
		var from, to uint64
		var maxOps int
		fmt.Sscanf(rf.Workload.Note, "prefix %d %d %d", &from, &to, &maxOps)
		o.seed, o.maxOps = rf.Seed, maxOps
		cl, wo := o.replayPrefix(from, to, rf.Build)
		fmt.Printf("jmsim: replay of %s: worker indices [%d,%d) in one fresh %s process: class=%s\n", path, from, to, rf.Build, cl)
		switch cl {
		case "ok":
			return 0
		case "trouble":
			return exitTrouble
		}
		if wo != nil && wo.Viol != nil {
			fmt.Println(trunc(wo.Viol.Detail, 2000))
		}
		fmt.Printf("VIOLATION property=%s replay=%s\n", o.prop, path)
		return exitViolation
	}
	cl, sig, txt := o.replayOnce(rf.Workload, rf.Build)
	fmt.Printf("jmsim: replay of %s (%s build): class=%s sig=%s\n%s\n", path, rf.Build, cl, sig, trunc(txt, 4000))
	switch cl {
	case "ok":
		return 0
	case "trouble", "timeout", "inconclusive":
		return exitTrouble
	}
	fmt.Printf("VIOLATION property=%s replay=%s\n", o.prop, path)
	return exitViolation
}

// ---------------------------------------------------------------------------
// Aggregation and evidence
// ---------------------------------------------------------------------------

type agg struct {
	s           StatsOut
	sw, tx, ntx map[uint64]struct{}
	perms       map[uint64]struct{}
	pairs       map[[2]int32]struct{}
	psites      map[int32]struct{}
	siteHits    []uint64
	samples     []string
	byKind      map[string]uint64
	wallByKind  map[string]float64
	procs       int
}

func newAgg() *agg {
	return &agg{sw: map[uint64]struct{}{}, tx: map[uint64]struct{}{}, ntx: map[uint64]struct{}{}, perms: map[uint64]struct{}{},
		pairs: map[[2]int32]struct{}{}, psites: map[int32]struct{}{}, byKind: map[string]uint64{}, wallByKind: map[string]float64{},
		s: StatsOut{Schedules: map[string]uint64{}}}
}

func (a *agg) add(j *job) {
	s := j.wo.S
	a.procs++
	a.byKind[j.kind] += s.Runs
	a.wallByKind[j.kind] += j.wall.Seconds()
	t := &a.s
	t.Runs += s.Runs
	t.Calls += s.Calls
	t.OkCalls += s.OkCalls
	t.ErrCalls += s.ErrCalls
	t.PanicCalls += s.PanicCalls
	t.Aborted += s.Aborted
	t.StaticErr += s.StaticErr
	t.Steps += s.Steps
	if s.MaxSteps > t.MaxSteps {
		t.MaxSteps = s.MaxSteps
	}
	t.Switches += s.Switches
	t.MapServed += s.MapServed
	t.MapReord += s.MapReord
	t.GCs += s.GCs
	t.AliasResults += s.AliasResults
	t.SpareCapDocs += s.SpareCapDocs
	t.SharedDocCalls += s.SharedDocCalls
	t.ExprStateChanged += s.ExprStateChanged
	t.Feeds += s.Feeds
	t.Mutates += s.Mutates
	t.NonNull += s.NonNull
	t.Unsafe += s.Unsafe
	t.Strict += s.Strict
	t.Enum += s.Enum
	t.MultiFault += s.MultiFault
	t.Compared += s.Compared
	t.Blocks += s.Blocks
	t.PoolGets += s.PoolGets
	t.PoolDrops += s.PoolDrops
	t.RandDraws += s.RandDraws
	t.ClockReads += s.ClockReads
	t.HotYields += s.HotYields
	t.Spawned += s.Spawned
	t.Leaked += s.Leaked
	t.BlockedOps += s.BlockedOps
	if j.kind == "cold" {
		t.Cold += s.Runs
	}
	for k, v := range s.Schedules {
		t.Schedules[k] += v
	}
	for _, h := range s.SwitchHashes {
		a.sw[h] = struct{}{}
	}
	for _, h := range s.Texts {
		a.tx[h] = struct{}{}
	}
	for _, h := range s.NontrivTexts {
		a.ntx[h] = struct{}{}
	}
	for _, h := range s.MapPerms {
		a.perms[h] = struct{}{}
	}
	for _, p := range s.SitePairs {
		a.pairs[p] = struct{}{}
	}
	for _, p := range s.PreemptSites {
		a.psites[p] = struct{}{}
	}
	if len(a.siteHits) < len(s.SiteHits) {
		a.siteHits = append(a.siteHits, make([]uint64, len(s.SiteHits)-len(a.siteHits))...)
	}
	for i, h := range s.SiteHits {
		a.siteHits[i] += uint64(h)
	}
	if len(a.samples) < 3 {
		a.samples = append(a.samples, j.wo.SampleWls...)
	}
}

func (o *orch) writeEvidence(a *agg, c counts, nviol int) {
	if o.evidence == "" {
		return
	}
	wall := time.Since(o.t0).Seconds()
	totalSites, yieldSites := 0, 0
	if o.sitesFile != "" {
		if b, err := os.ReadFile(o.sitesFile); err == nil {
			var rep struct {
				Sites []struct {
					Kind string `json:"kind"`
				} `json:"sites"`
			}
			json.Unmarshal(b, &rep)
			totalSites = len(rep.Sites)
			for _, s := range rep.Sites {
				if s.Kind != "maprange" {
					yieldSites++
				}
			}
		}
	}
	hit := 0
	for _, h := range a.siteHits {
		if h > 0 {
			hit++
		}
	}
	var samples []any
	for _, s := range a.samples {
		var v any
		json.Unmarshal([]byte(s), &v)
		samples = append(samples, v)
	}
	if len(samples) == 0 {
		samples = append(samples, "no sample recorded (no plain worker finished)")
	}
	var rule, distinctWhat string
	distinct := 0
	switch o.prop {
	case "C06":
		rule = "histories of 4..maxops operations, 1/60 of them 100-180 (compile, MustCompile, Expression.Search, one-shot Search, feed a result back as a document, caller mutates its own document and re-evaluates, compile churn) over 1-3 generated expressions and 2-5 generated documents, derived from (VERIF_SEED, run index); distinct_nontrivial = distinct expression texts that returned a non-null value in some call of a history and whose outcome was compared with a fresh evaluation"
		distinct = len(a.ntx)
		distinctWhat = "expression texts with a non-null compared outcome"
	case "C07":
		rule = "2-7 simulated clients, 1-7 calls each (general runs, compile storms, function-family runs, invalid-text runs, deep-nesting runs, big-data runs, abort-then-overlap runs, and the hot index space described under hot_space), sharing compiled Expressions and documents, under a seeded schedule (random walk, PCT depth 1-3, hot-site walk, sequential, strided and hot preemption sweeps), plain and -race builds, cold-start race processes; distinct_nontrivial = distinct switch sequences (hash of the (from task, site, to task) list) with at least one preemption, i.e. distinct interleavings actually executed"
		distinct = len(a.sw)
		distinctWhat = "distinct interleavings (switch-sequence hashes)"
	case "C15":
		rule = "one generated (expression, document) sample per run (general, function-family, medium and big-data samples), evaluated under 6 map-order policies x {one-shot on a fresh document, reused Expression on a re-ordered document} plus dual execution, optional 140-fold reuse, forced GC and random-walk schedules for library goroutines, and a second OS process; distinct_nontrivial = distinct expression texts for which some evaluation iterated a map of >= 2 keys in non-sorted order and returned a non-null value that was compared across orders"
		distinct = len(a.ntx)
		distinctWhat = "expression texts evaluated under a re-ordered map iteration with a non-null result"
	}
	if distinct < 2 && len(a.tx) >= 2 {
		// never report more than was measured; keep the measured number
	}
	perHour := func(n uint64) float64 {
		if wall <= 0 {
			return 0
		}
		return float64(n) / wall * 3600
	}
	cov := map[string]any{
		"evaluations":         int(a.s.Runs),
		"distinct_nontrivial": distinct,
		"distinct_measure":    distinctWhat,
		"rule":                rule,
		"samples":             samples,
		"simulated_runs":      a.s.Runs,
		"runs_by_kind":        a.byKind,
		"hot_space": map[string]any{"hot_sites_in_repository": o.hotSites(), "shapes_selected_by_probe": os.Getenv("JMSIM_HOT_KINDS"), "plain_runs": c.hot, "race_runs": c.hotRace,
			"note": "C07 only (run indices from 2^40, counted in runs_by_kind under plain/race): function-family, compile-storm, invalid-text and abort-then-overlap runs under schedules that preempt almost only next to shared-state accesses; restricted to the shapes a sequential probe saw touching shared state; a quarter of the budget over all shapes when hot sites exist but none was reached, a token budget when there is none"},
		"processes":           a.procs,
		"runs_per_hour":       perHour(a.s.Runs),
		"seeds_per_hour":      perHour(a.s.Runs),
		"verif_seed":          o.seed,
		"api_calls":           map[string]uint64{"total": a.s.Calls, "ok": a.s.OkCalls, "ok_non_null": a.s.NonNull, "error": a.s.ErrCalls, "panic": a.s.PanicCalls},
		"simulated_time": map[string]any{"unit": "yields (function entries, loop heads and statements of repository code executed under the simulator)",
			"total": a.s.Steps, "max_per_run": a.s.MaxSteps},
		"faults_fired": map[string]any{
			"F1_preemptions":                  a.s.Switches,
			"F2_map_reorderings":              a.s.MapReord,
			"F2_map_ranges_served":            a.s.MapServed,
			"F3_aborted_calls":                a.s.Aborted,
			"F4_cold_start_processes":         a.s.Cold,
			"F5_docs_with_spare_cap":          a.s.SpareCapDocs,
			"F5_results_fed_back":             a.s.Feeds,
			"F5_caller_mutations":             a.s.Mutates,
			"F6_forced_gc":                    a.s.GCs,
			"F7_shim_lock_contention":         a.s.Blocks,
			"F7_pool_gets":                    a.s.PoolGets,
			"F7_pool_drops":                   a.s.PoolDrops,
			"F7_rand_draws":                   a.s.RandDraws,
			"F7_clock_reads":                  a.s.ClockReads,
			"hot_yields":                      a.s.HotYields,
			"library_goroutines_as_tasks":     a.s.Spawned,
			"library_goroutines_left_blocked": a.s.Leaked,
			"channel_operations_that_blocked": a.s.BlockedOps,
			"static_errors":                   a.s.StaticErr,
			"F7_note":                         "0 means the repository has no sync/time/rand call site for the shims to act on",
		},
		"interleavings": map[string]any{
			"distinct_switch_sequences":           len(a.sw),
			"distinct_preempted_to_resumed_pairs": len(a.pairs),
			"preempted_sites":                     len(a.psites),
			"yield_sites_total":                   yieldSites,
			"yield_sites_executed":                hit,
			"schedules":                           a.s.Schedules,
		},
		"map_orders": map[string]any{"distinct_site_permutation_pairs": len(a.perms), "map_range_sites": totalSites - yieldSites},
		"probes": map[string]uint64{
			"expression_state_changed":  a.s.ExprStateChanged,
			"result_aliases_input":      a.s.AliasResults,
			"calls_on_shared_values":    a.s.SharedDocCalls,
			"distinct_expression_texts": uint64(len(a.tx)),
		},
		"c15_classes":    map[string]uint64{"strict": a.s.Strict, "enumerating": a.s.Enum, "same_order_only": a.s.Unsafe, "multi_fault": a.s.MultiFault, "cross_order_comparisons": a.s.Compared},
		"oracle_process": map[string]int{"re_evaluations": o.oracleChecked, "processes": o.oracleProcesses},
		"components": map[string]string{
			"real":      "lexer, parser, evaluator, public API, error mapping (rebuilt from /repo's working tree, same-line seams spliced in), decimal128, encoding/json, sort/slices, reflect",
			"simulated": "which client goroutine runs next (seeded scheduler), map iteration order in repository code (policy seam), forced GC points; sync/time/math/rand/maps shims only if the repository imports them",
			"stubbed":   "nothing",
		},
		"trouble":                        o.trouble,
		"runs_skipped_over_yield_budget": o.skipped,
	}
	ev := map[string]any{
		"property_id": o.prop,
		"tier":        o.tier,
		"seed":        int64(o.seed & 0x7fffffffffffffff),
		"level":       "exploration",
		"coverage":    cov,
		"assumptions": []string{
			"seeded sampling, not enumeration: a clean batch is evidence, not proof",
			"outcome interleavings are explored at yield-site granularity (statements of repository code); the race build reports unsynchronised conflicting accesses independently of the schedule",
			"trusted: Go 1.26.8 toolchain and race runtime; the source splices (the repository's own suite passes on the instrumented copy); the generator's comparison-mode analysis (C15)",
			"the library starts no goroutines of its own (checked by the instrumenter; otherwise the check exits 2)",
		},
		"wall_s":     wall,
		"violations": nviol,
	}
	b, _ := json.MarshalIndent(ev, "", " ")
	os.MkdirAll(filepath.Dir(o.evidence), 0o755)
	if err := os.WriteFile(o.evidence, b, 0o644); err != nil {
		fmt.Fprintln(os.Stderr, "orch: cannot write evidence:", err)
	}
}
