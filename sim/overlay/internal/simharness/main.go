package main

import (
	"fmt"

	jmespath "github.com/woodsbury/jmespath"
	"github.com/woodsbury/jmespath/internal/simrt"
)

func main() {
	doc := map[string]any{"a": []any{3.0, 1.0, 2.0}, "b": map[string]any{"x": 1.0, "y": 2.0, "z": 3.0}}
	e := jmespath.MustCompile("{s: sort(a), k: keys(b), v: let $q = b.x in [$q, $]}")
	var outs [3]any
	fns := make([]func(), 3)
	for i := range fns {
		i := i
		fns[i] = func() {
			simrt.SetPolicy(simrt.Policy{Kind: uint8(i)})
			outs[i], _ = e.Search(doc)
		}
	}
	for seed := uint64(0); seed < 3; seed++ {
		r := simrt.Run(fns, simrt.Schedule{Kind: simrt.StratWalk, Seed: seed, WalkDen: 8}, 1e6)
		fmt.Println(r.Steps, r.TaskSteps, r.Digest, len(r.Switches), r.MapServed, r.MapReord, outs[0], outs[1])
	}
}
