// Command jmsim is the harness of the jmespath deterministic simulator. It is
// compiled inside the instrumented scratch copy of the repository (twice:
// plain and -race) and has these sub-commands:
//
//	orch    orchestrate a whole check (spawns the others), write evidence
//	worker  run a range of seeded workloads in this process
//	sweep   preemption-point sweep over a range of workloads
//	replay  run one explicit workload from a replay file
//	oracle  re-evaluate recorded (expression, document) pairs without history
//	gen     print generated workloads (debugging / samples)
package main

import (
	"bufio"
	"encoding/json"
	"flag"
	"fmt"
	"os"
	"sort"
	"strings"

	"github.com/woodsbury/jmespath/internal/simrt"
)

const (
	exitViolation = 1
	exitTrouble   = 2
	exitRace      = 66
)

func main() {
	if len(os.Args) < 2 {
		fmt.Fprintln(os.Stderr, "usage: jmsim orch|worker|sweep|replay|oracle|gen ...")
		os.Exit(exitTrouble)
	}
	switch os.Args[1] {
	case "worker":
		cmdWorker(os.Args[2:], false)
	case "sweep":
		cmdWorker(os.Args[2:], true)
	case "replay":
		cmdReplay(os.Args[2:])
	case "oracle":
		cmdOracle(os.Args[2:])
	case "gen":
		cmdGen(os.Args[2:])
	case "hotprobe":
		cmdHotProbe(os.Args[2:])
	case "orch":
		cmdOrch(os.Args[2:])
	default:
		fmt.Fprintln(os.Stderr, "unknown sub-command", os.Args[1])
		os.Exit(exitTrouble)
	}
}

func genWorkload(prop string, seed, index uint64, maxOps int) *Workload {
	switch prop {
	case "C06":
		return GenC06(seed, index, maxOps)
	case "C07":
		return GenC07(seed, index)
	case "C15":
		return GenC15(seed, index)
	}
	fmt.Fprintln(os.Stderr, "unknown property", prop)
	os.Exit(exitTrouble)
	return nil
}

func runWorkload(w *Workload, st *Stats, maxYields uint64) *RunReport {
	switch w.Prop {
	case "C06":
		return RunC06(w, st, maxYields)
	case "C07":
		return RunC07(w, st, maxYields)
	case "C15":
		return RunC15(w, st, maxYields)
	}
	return &RunReport{Inconclusive: "unknown property " + w.Prop}
}

// WorkerOut is what a worker process reports (one JSON document).
type WorkerOut struct {
	Prop      string     `json:"prop"`
	Race      bool       `json:"race"`
	From, To  uint64     `json:"-"`
	Runs      uint64     `json:"runs"`
	Viol      *Violation `json:"violation,omitempty"`
	Workload  *Workload  `json:"workload,omitempty"` // explicit form of the violating run
	Inconcl   string     `json:"inconclusive,omitempty"`
	S         StatsOut   `json:"stats"`
	SampleWls []string   `json:"samples,omitempty"`
}

type StatsOut struct {
	Runs, Calls, OkCalls, ErrCalls, PanicCalls, Aborted, StaticErr, Steps, MaxSteps, Switches, MapServed, MapReord, GCs uint64
	AliasResults, SpareCapDocs, SharedDocCalls, ExprStateChanged, Feeds, Mutates, NonNull                               uint64
	Unsafe, Strict, Enum, MultiFault, Compared, Blocks, Cold                                                            uint64
	Schedules                                                                                                           map[string]uint64
	SwitchHashes, Texts, NontrivTexts                                                                                   []uint64
	SitePairs                                                                                                           [][2]int32
	PreemptSites                                                                                                        []int32
	SiteHits                                                                                                            []uint32
	TraceDigest                                                                                                         uint64
	MapPerms                                                                                                            []uint64
	PoolGets, PoolDrops, RandDraws, ClockReads, HotYields                                                               uint64
	Spawned, Leaked, BlockedOps                                                                                         uint64
}

func (st *Stats) out() StatsOut {
	o := StatsOut{Runs: st.Runs, Calls: st.Calls, OkCalls: st.OkCalls, ErrCalls: st.ErrCalls, PanicCalls: st.PanicCalls, Aborted: st.Aborted,
		StaticErr: st.StaticErr, Steps: st.Steps, MaxSteps: st.MaxSteps, Switches: st.Switches, MapServed: st.MapServed, MapReord: st.MapReord,
		GCs: st.GCs, AliasResults: st.AliasResults, SpareCapDocs: st.SpareCapDocs, SharedDocCalls: st.SharedDocCalls,
		ExprStateChanged: st.ExprStateChanged, Feeds: st.Feeds, Mutates: st.Mutates, NonNull: st.NonNull, Unsafe: st.Unsafe, Strict: st.Strict,
		Enum: st.Enum, MultiFault: st.MultiFault, Compared: st.Compared, Blocks: st.Blocks, Cold: st.Cold, Schedules: st.Schedules, TraceDigest: st.TraceDigest}
	for h := range st.SwitchHashes {
		o.SwitchHashes = append(o.SwitchHashes, h)
	}
	for h := range st.Texts {
		o.Texts = append(o.Texts, h)
	}
	for h := range st.NontrivTexts {
		o.NontrivTexts = append(o.NontrivTexts, h)
	}
	for p := range st.SitePairs {
		o.SitePairs = append(o.SitePairs, p)
	}
	for p := range st.PreemptSites {
		o.PreemptSites = append(o.PreemptSites, p)
	}
	for p := range simrt.PermSeen {
		o.MapPerms = append(o.MapPerms, p)
	}
	sort.Slice(o.SwitchHashes, func(a, b int) bool { return o.SwitchHashes[a] < o.SwitchHashes[b] })
	sort.Slice(o.Texts, func(a, b int) bool { return o.Texts[a] < o.Texts[b] })
	sort.Slice(o.NontrivTexts, func(a, b int) bool { return o.NontrivTexts[a] < o.NontrivTexts[b] })
	sort.Slice(o.PreemptSites, func(a, b int) bool { return o.PreemptSites[a] < o.PreemptSites[b] })
	sort.Slice(o.MapPerms, func(a, b int) bool { return o.MapPerms[a] < o.MapPerms[b] })
	sort.Slice(o.SitePairs, func(a, b int) bool {
		if o.SitePairs[a][0] != o.SitePairs[b][0] {
			return o.SitePairs[a][0] < o.SitePairs[b][0]
		}
		return o.SitePairs[a][1] < o.SitePairs[b][1]
	})
	o.SiteHits = simrt.SiteHits
	o.PoolGets, o.PoolDrops, o.RandDraws, o.ClockReads = simrt.ShimCounters()
	o.HotYields = simrt.HotYields
	o.Spawned, o.Leaked, o.BlockedOps = simrt.Spawned, simrt.Leaked, simrt.BlockedOps
	return o
}

func writeJSONFile(path string, v any) {
	b, err := json.Marshal(v)
	if err != nil {
		fmt.Fprintln(os.Stderr, "harness: marshal:", err)
		os.Exit(exitTrouble)
	}
	if err := os.WriteFile(path, b, 0o644); err != nil {
		fmt.Fprintln(os.Stderr, "harness:", err)
		os.Exit(exitTrouble)
	}
}

// cmdWorker runs workloads [from,to) derived from (seed, index). In a -race
// build the run is a violation as soon as the detector has reported anything.
func cmdWorker(args []string, sweep bool) {
	fs := flag.NewFlagSet("worker", flag.ExitOnError)
	prop := fs.String("prop", "", "property")
	seed := fs.Uint64("seed", 1, "VERIF_SEED")
	from := fs.Uint64("from", 0, "first run index")
	to := fs.Uint64("to", 1, "one past the last run index")
	out := fs.String("out", "", "result file (JSON)")
	tuples := fs.String("tuples", "", "file receiving (expression, document, outcome) tuples for the oracle process")
	maxOps := fs.Int("maxops", 12, "C06: maximum history length")
	tupleEvery := fs.Uint64("tuple-every", 1, "record oracle tuples only for runs whose index is a multiple of this")
	maxYields := fs.Uint64("maxyields", 400_000_000, "watchdog: yields per run")
	samples := fs.Int("samples", 0, "keep this many sample workloads in the output")
	digests := fs.String("digests", "", "write one line per run: index, event-log digest (determinism self-check)")
	noNative := fs.Bool("nonative", false, "C15: leave out Go's own (unpinned) map order, so that event logs are comparable across processes")
	fs.Parse(args)
	st := newStats()
	simrt.TrackPerms = true
	wo := &WorkerOut{Prop: *prop, Race: simrt.RaceEnabled}
	var tw *bufio.Writer
	if *tuples != "" {
		f, err := os.Create(*tuples)
		if err != nil {
			fmt.Fprintln(os.Stderr, "harness:", err)
			os.Exit(exitTrouble)
		}
		defer f.Close()
		tw = bufio.NewWriter(f)
		defer tw.Flush()
	}
	var dw *bufio.Writer
	if *digests != "" {
		f, err := os.Create(*digests)
		if err != nil {
			fmt.Fprintln(os.Stderr, "harness:", err)
			os.Exit(exitTrouble)
		}
		defer f.Close()
		dw = bufio.NewWriter(f)
		defer dw.Flush()
	}
	finish := func(code int) {
		wo.S = st.out()
		wo.Runs = st.Runs
		if tw != nil {
			tw.Flush()
		}
		if dw != nil {
			dw.Flush()
		}
		if *out != "" {
			writeJSONFile(*out, wo)
		}
		os.Exit(code)
	}
	var lastHot uint64
	one := func(w *Workload) []uint64 {
		fmt.Fprintf(os.Stderr, "SIM-BEGIN %d\n", w.Index)
		races0 := simrt.RaceErrors()
		rep := runWorkload(w, st, *maxYields)
		if dw != nil {
			fmt.Fprintf(dw, "%d %016x\n", w.Index, rep.Digest)
		}
		if simrt.RaceErrors() > races0 {
			ew := w.clone()
			ew.Sched = rep.Explicit
			wo.Viol = &Violation{Prop: w.Prop, Class: "data-race", Sig: "data-race", Detail: "the race detector reported a data race between simulated clients (report on stderr)"}
			wo.Workload = ew
			finish(exitRace)
		}
		if rep.Inconclusive != "" {
			wo.Inconcl = rep.Inconclusive
			wo.Workload = w
			finish(exitTrouble)
		}
		if rep.Viol != nil {
			ew := w.clone()
			ew.Sched = rep.Explicit
			wo.Viol = rep.Viol
			wo.Workload = ew
			finish(exitViolation)
		}
		if tw != nil {
			for _, t := range rep.Tuples {
				if w.Index%*tupleEvery != 0 && !t.Always {
					continue
				}
				tw.WriteString(mustJSON(t))
				tw.WriteByte('\n')
			}
		}
		if len(wo.SampleWls) < *samples {
			ew := w.clone()
			for i := range ew.Exprs {
				ew.Exprs[i].Tree = nil
			}
			wo.SampleWls = append(wo.SampleWls, mustJSON(ew))
		}
		lastHot = rep.HotHits
		return rep.TaskSteps
	}
	for idx := *from; idx < *to; idx++ {
		w := genWorkload(*prop, *seed, idx, *maxOps)
		if sweep && idx%2 == 0 {
			// every other sweep goes to a run whose clients meet inside one
			// built-in function or inside Compile (narrow windows next to shared
			// state, if there is any): the next such workload after this index
			for k := uint64(1); k <= 200; k++ {
				c := genWorkload(*prop, *seed, idx*1000+k, *maxOps)
				if c.Note == "family" || c.Note == "storm" {
					w = c
					break
				}
			}
		}
		if *noNative {
			var ps []simrt.Policy
			for _, p := range w.Policies {
				if p.Kind != simrt.PolNative {
					ps = append(ps, p)
				}
			}
			w.Policies = ps
		}
		if !sweep {
			one(w)
			continue
		}
		// preemption-point sweep: run the first task to its k-th yield, then
		// every other task to completion, then resume it; k over all its yields
		if len(w.Tasks) < 2 {
			continue
		}
		// hot sweep: preempt the first task at each of its yields next to a
		// shared-state access (none on a tree without package-level state)
		for k := uint64(0); k < 300; k++ {
			sw := w.clone()
			sw.Sched = simrt.Schedule{Kind: simrt.StratHotPreempt, First: int(idx/2) % len(w.Tasks), Seed: w.Sched.Seed, HotK: k}
			one(sw)
			if lastHot <= k {
				break
			}
		}
		// at most ~400 preemption points per workload: stride over the first
		// task's yields (count learnt from the k=0 run), random phase
		var n0 uint64
		stride, phase := uint64(1), uint64(0)
		for k := uint64(0); ; {
			sw := w.clone()
			sw.Sched = simrt.Schedule{Kind: simrt.StratExplicit, First: 0, Seed: w.Sched.Seed, Switches: []simrt.Switch{{TS: k, From: 0, To: 1}}}
			ts := one(sw)
			if k == 0 && len(ts) > 0 {
				n0 = ts[0]
				if n0 > 400 {
					stride = n0 / 400
					phase = NewRng(*seed, idx, 0x5eeb).U64() % stride
				}
				k = 1 + phase
				continue
			}
			k += stride
			if k >= n0 {
				break
			}
		}
	}
	finish(0)
}

func readWorkload(path string) *Workload {
	b, err := os.ReadFile(path)
	if err != nil {
		fmt.Fprintln(os.Stderr, "harness:", err)
		os.Exit(exitTrouble)
	}
	var rf ReplayFile
	if err := json.Unmarshal(b, &rf); err != nil || rf.Workload == nil {
		fmt.Fprintln(os.Stderr, "harness: bad replay file:", err)
		os.Exit(exitTrouble)
	}
	return rf.Workload
}

// ReplayFile is what is written under /verif/replays.
type ReplayFile struct {
	Property  string     `json:"property"`
	Build     string     `json:"build"` // plain | race
	Violation *Violation `json:"violation"`
	Workload  *Workload  `json:"workload"`
	Seed      uint64     `json:"verif_seed"`
	Note      string     `json:"note,omitempty"`
	RaceText  string     `json:"race_report,omitempty"`
	HotKinds  string     `json:"hot_kinds,omitempty"` // restriction of the hot index space in force when found (needed by prefix replays)
}

// cmdReplay executes one explicit workload. Exit 1 (or 66 in a race build
// when the detector fires) with a line "SIM-VIOLATION class=<c> sig=<s>".
func cmdReplay(args []string) {
	fs := flag.NewFlagSet("replay", flag.ExitOnError)
	maxYields := fs.Uint64("maxyields", 400_000_000, "watchdog")
	fs.Parse(args)
	if fs.NArg() != 1 {
		fmt.Fprintln(os.Stderr, "usage: jmsim replay <file>")
		os.Exit(exitTrouble)
	}
	w := readWorkload(fs.Arg(0))
	st := newStats()
	rep := runWorkload(w, st, *maxYields)
	if simrt.RaceErrors() > 0 {
		fmt.Println("SIM-VIOLATION class=data-race sig=data-race")
		os.Exit(exitRace)
	}
	if rep.Inconclusive != "" {
		fmt.Println("SIM-INCONCLUSIVE " + rep.Inconclusive)
		os.Exit(exitTrouble)
	}
	if rep.Viol != nil {
		fmt.Printf("SIM-VIOLATION class=%s sig=%s\n%s\n", rep.Viol.Class, rep.Viol.Sig, rep.Viol.Detail)
		os.Exit(exitViolation)
	}
	fmt.Printf("SIM-OK steps=%d digest=%016x\n", st.Steps, rep.Digest)
}

// cmdOracle re-evaluates recorded calls in a process that never ran the
// history or the concurrent phase, in shuffled order.
func cmdOracle(args []string) {
	fs := flag.NewFlagSet("oracle", flag.ExitOnError)
	seed := fs.Uint64("seed", 1, "shuffle seed")
	out := fs.String("out", "", "result file")
	fs.Parse(args)
	type res struct {
		Checked  int    `json:"checked"`
		Mismatch *Tuple `json:"mismatch,omitempty"`
		Got      string `json:"got,omitempty"`
	}
	var r res
	var ts []Tuple
	for _, path := range fs.Args() {
		f, err := os.Open(path)
		if err != nil {
			fmt.Fprintln(os.Stderr, "harness:", err)
			os.Exit(exitTrouble)
		}
		sc := bufio.NewScanner(f)
		sc.Buffer(make([]byte, 1<<20), 1<<28)
		var bad error
		for sc.Scan() {
			if bad != nil {
				// a malformed line that is not the last one of its file
				fmt.Fprintln(os.Stderr, "harness: bad tuple:", bad)
				os.Exit(exitTrouble)
			}
			var t Tuple
			if err := json.Unmarshal(sc.Bytes(), &t); err != nil {
				bad = err // tolerated only as the truncated tail of an interrupted worker
				continue
			}
			ts = append(ts, t)
		}
		f.Close()
	}
	rng := NewRng(*seed, 0x04ac1e)
	for i := len(ts) - 1; i > 0; i-- {
		j := rng.Intn(i + 1)
		ts[i], ts[j] = ts[j], ts[i]
	}
	code := 0
	for i := range ts {
		t := &ts[i]
		doc, err := Dec(t.Doc)
		if err != nil {
			fmt.Fprintln(os.Stderr, "harness:", err)
			os.Exit(exitTrouble)
		}
		simrt.SetPolicy(t.Pol)
		o := callFresh(t.Text, doc, t.OneShot)
		var got string
		if t.Mode != nil {
			c := &c15cmp{mode: t.Mode, exact: t.Exact, errAny: t.ErrAny, panicAny: t.PanicAny}
			got = c.key(o)
			if c15match(got, t.Key) {
				got = t.Key
			}
		} else {
			got = o.Key()
		}
		r.Checked++
		if got != t.Key {
			r.Mismatch, r.Got = t, got
			code = exitViolation
			break
		}
	}
	if *out != "" {
		writeJSONFile(*out, r)
	}
	os.Exit(code)
}

func cmdGen(args []string) {
	fs := flag.NewFlagSet("gen", flag.ExitOnError)
	prop := fs.String("prop", "C15", "property")
	seed := fs.Uint64("seed", 1, "seed")
	from := fs.Uint64("from", 0, "")
	to := fs.Uint64("to", 10, "")
	full := fs.Bool("full", false, "print whole workloads")
	fs.Parse(args)
	for i := *from; i < *to; i++ {
		w := genWorkload(*prop, *seed, i, 12)
		if *full {
			fmt.Println(mustJSON(w))
			continue
		}
		for _, e := range w.Exprs {
			m := "?"
			if e.Tree != nil {
				mm, an := Analyze(e.Tree)
				m = mm.String()
				if an.MultiFault {
					m += " multifault"
				}
				if an.Enum {
					m += " enum"
				}
			}
			fmt.Printf("%d\t%s\t%s\n", i, m, e.Text)
		}
	}
}

// cmdHotProbe: which run shapes of the hot index space touch shared state of
// the repository at all? Every shape is executed a few times with its clients
// one after the other; a shape counts when a yield next to a shared-state
// access was executed inside the simulation. Prints the shapes, comma
// separated, on one line "HOT-KINDS <list>".
func cmdHotProbe(args []string) {
	fs := flag.NewFlagSet("hotprobe", flag.ExitOnError)
	seed := fs.Uint64("seed", 1, "VERIF_SEED")
	fs.Parse(args)
	st := newStats()
	var hit []string
	for ki, kind := range HotKinds() {
		var d uint64
		for i := uint64(0); i < 4 && d == 0; i++ {
			w := genC07(*seed, HotBase+uint64(ki)*1000+i, kind)
			w.Sched = simrt.Schedule{Kind: simrt.StratExplicit, Seed: 1}
			h0 := simrt.HotYields
			rep := runWorkload(w, st, 50_000_000)
			if rep.Viol != nil || rep.Inconclusive != "" {
				// not the probe's business: the search proper will meet it
			}
			d += simrt.HotYields - h0
		}
		if d > 0 {
			hit = append(hit, kind)
		}
	}
	fmt.Println("HOT-KINDS " + strings.Join(hit, ","))
}
