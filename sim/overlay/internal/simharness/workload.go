package main

import (
	"os"
	"sort"
	"strconv"
	"strings"

	"github.com/woodsbury/jmespath/internal/simrt"
)

// Op is one API call (or caller action) of a simulated client.
type Op struct {
	K    string       `json:"k"`              // search | esearch | compile | mustcompile | feed | mutate
	E    int          `json:"e,omitempty"`    // expression index
	D    int          `json:"d,omitempty"`    // document index
	Slot int          `json:"slot,omitempty"` // C06: compiled-expression slot
	R    int          `json:"r,omitempty"`    // C06 feed: result index
	Pol  simrt.Policy `json:"p"`
	Mut  uint64       `json:"mut,omitempty"` // C06 mutate: seed of the caller's own modification
}

// Workload is the explicit, replayable description of one simulated run. A
// seed is only a compact name for one; replay files store this form.
type Workload struct {
	Prop   string         `json:"prop"`
	Seed   uint64         `json:"seed"`  // VERIF_SEED it was derived from (provenance)
	Index  uint64         `json:"index"` // run index under that seed
	Docs   []string       `json:"docs"`  // typed encodings
	Exprs  []ExprSpec     `json:"exprs"`
	Shared []int          `json:"shared,omitempty"` // C07: expressions compiled once in setup and shared by all tasks
	Tasks  [][]Op         `json:"tasks"`
	Sched  simrt.Schedule `json:"sched"`
	// C15
	Policies []simrt.Policy `json:"policies,omitempty"`
	Note     string         `json:"note,omitempty"`
	Fam      string         `json:"fam,omitempty"` // function family of a family run
	// Share[i] = {dst, src, field}: document dst gets the very same Go value as
	// document src under that top-level member (sub-tree shared between documents)
	Share [][3]string `json:"share,omitempty"`
}

// applyShares makes documents share sub-trees as described by w.Share.
func applyShares(w *Workload, docs []any) {
	for _, sh := range w.Share {
		dst, err1 := strconv.Atoi(sh[0])
		src, err2 := strconv.Atoi(sh[1])
		if err1 != nil || err2 != nil || dst < 0 || src < 0 || dst >= len(docs) || src >= len(docs) || dst == src {
			continue
		}
		dm, ok1 := docs[dst].(map[string]any)
		sm, ok2 := docs[src].(map[string]any)
		if !ok1 || !ok2 || dm == nil {
			continue
		}
		if v, ok := sm[sh[2]]; ok {
			dm[sh[2]] = v
		}
	}
}

func genShares(r *Rng, ndocs int) [][3]string {
	var out [][3]string
	if ndocs < 2 || !r.P(1, 4) {
		return nil
	}
	n := 1 + r.Intn(2)
	for i := 0; i < n; i++ {
		dst := 1 + r.Intn(ndocs-1)
		src := r.Intn(dst)
		out = append(out, [3]string{strconv.Itoa(dst), strconv.Itoa(src), pick(r, []string{"recs", "nums", "rmap", "omap", "nest", "strs"})})
	}
	return out
}

func (w *Workload) clone() *Workload {
	var c Workload
	mustUnJSON(mustJSON(w), &c)
	return &c
}

func randPolicy(r *Rng) simrt.Policy {
	switch r.Intn(8) {
	case 0, 1:
		return simrt.Policy{Kind: simrt.PolSorted}
	case 2:
		return simrt.Policy{Kind: simrt.PolReverse}
	case 3:
		return simrt.Policy{Kind: simrt.PolRotate, Seed: uint64(1 + r.Intn(5))}
	// (the per-range policy is used by C15 only: its order depends on how many
	// range statements ran before, which a correct change may alter between a
	// call and its reference evaluation, and C06/C07 compare outcomes exactly)
	default:
		return simrt.Policy{Kind: simrt.PolHash, Seed: r.U64() >> 8}
	}
}

func randSchedule(r *Rng, ntasks int, gcPct int) simrt.Schedule {
	var s simrt.Schedule
	switch r.Intn(10) {
	case 0:
		s = simrt.Schedule{Kind: simrt.StratExplicit, First: r.Intn(ntasks), Seed: r.U64()} // sequential
	case 4, 5:
		// concentrates preemptions next to shared-state accesses; an ordinary
		// sparse walk when the repository has none
		s = simrt.Schedule{Kind: simrt.StratHotWalk, Seed: r.U64(), HotDen: pick(r, []uint64{2, 3, 5}), WalkDen: pick(r, []uint64{256, 1024, 4096})}
	case 1, 2, 3:
		s = simrt.Schedule{Kind: simrt.StratPCT, Seed: r.U64(), Depth: 1 + r.Intn(3), Horizon: pick(r, []uint64{64, 256, 1024, 4096})}
	default:
		s = simrt.Schedule{Kind: simrt.StratWalk, Seed: r.U64(), WalkDen: pick(r, []uint64{8, 32, 128, 512, 2048})}
	}
	if r.Intn(100) < gcPct {
		n := 1 + r.Intn(2)
		for i := 0; i < n; i++ {
			s.GCSteps = append(s.GCSteps, uint64(r.Intn(2000)))
		}
		if len(s.GCSteps) == 2 && s.GCSteps[0] > s.GCSteps[1] {
			s.GCSteps[0], s.GCSteps[1] = s.GCSteps[1], s.GCSteps[0]
		}
	}
	return s
}

// HotBase is the first run index of the "hot" index space of C07: runs whose
// clients meet inside one construct (function-family, compile-storm and
// abort-then-overlap runs only) under schedules that preempt almost only next
// to shared-state accesses. The orchestrator spends a budget there when the
// instrumenter found such accesses in the repository (a handful of runs
// otherwise): deep interleavings of a lock-free structure - three clients,
// four or five ordered steps - are out of reach of a walk that also
// preempts anywhere else.
const HotBase = uint64(1) << 40

func genC07Hot(seed, index uint64) *Workload {
	r := NewRng(seed, 0xC07B, index)
	kinds := HotKinds()
	if f := os.Getenv("JMSIM_HOT_KINDS"); f != "" {
		// set by the orchestrator after its probe (and recorded in replay
		// files): the shapes whose sequential execution touched shared state
		kinds = strings.Split(f, ",")
	}
	kind := pick(r, kinds)
	w := genC07(seed, HotBase+r.U64()%(1<<36), kind)
	w.Index = index
	w.Note = "hot/" + kind
	w.Sched = simrt.Schedule{Kind: simrt.StratHotWalk, Seed: r.U64(), HotDen: pick(r, []uint64{2, 2, 3, 4}), WalkDen: pick(r, []uint64{64, 1024, 1 << 30, 1 << 30})}
	return w
}

// GenC07 derives one concurrent workload from (seed, index).
func GenC07(seed, index uint64) *Workload {
	if index >= HotBase {
		return genC07Hot(seed, index)
	}
	return genC07(seed, index, "")
}

// HotKinds: the run shapes of the hot index space (function families, "big:"
// + construct for abort-then-overlap runs on medium documents, compile
// storms, invalid texts).
func HotKinds() []string {
	var ks []string
	ks = append(ks, FuncFamilies...)
	ks = append(ks, HotOnlyFamilies...)
	for _, f := range BigFamilies[:6] {
		ks = append(ks, "big:"+f)
	}
	return append(ks, "storm", "invalid")
}

// genC07 with force == "" is the ordinary generator; otherwise the run shape
// is forced to one of HotKinds.
func genC07(seed, index uint64, force string) *Workload {
	r := NewRng(seed, 0xC07, index)
	w := &Workload{Prop: "C07", Seed: seed, Index: index}
	ntasks := 2 + r.Intn(3)
	ndocs := 1 + r.Intn(3)
	bigRun := false
	poison := pick(r, []int{0, 0, 3, 10})
	spare := pick(r, []int{0, 30, 60})
	for i := 0; i < ndocs; i++ {
		w.Docs = append(w.Docs, GenDoc(r.Fork(uint64(i)), "T"+strconv.Itoa(i), poison, spare))
	}
	w.Share = genShares(r, ndocs)
	bias := Bias{Enum: pick(r, []int{10, 30}), Lits: pick(r, []int{20, 50}), Fail: pick(r, []int{0, 5, 12}), Let: pick(r, []int{8, 20}), Unsafe: 50, Invalid: pick(r, []int{0, 5})}
	nexpr := 1 + r.Intn(3)
	for i := 0; i < nexpr; i++ {
		w.Exprs = append(w.Exprs, specOf(GenExpr(r.Fork(100+uint64(i)), bias)))
	}
	// abort-then-overlap runs (decided from a stream of their own, so that the
	// other runs of a seed stay what they were): every client first calls into
	// one construct on a document whose long arrays end in a wrong-typed
	// element (a call aborted after a lot of progress), then all clients call
	// into the same construct on a clean document at the same time - state
	// that an aborted call leaves behind (a scratch value released twice, a
	// half-updated table) only shows when two later calls overlap.
	aux := NewRng(seed, 0xC07A, index)
	abortRun := aux.P(1, 40)
	forceBig := strings.HasPrefix(force, "big:")
	if force != "" {
		abortRun = forceBig
	}
	if (r.P(1, 40) && force == "") || abortRun {
		// big data: shared big documents, expressions over their long arrays
		// (one of them with a wrong-typed element near the end of its long arrays);
		// four fifths of these runs use hundreds instead of thousands of elements
		w.Docs = []string{GenBigDoc(r.Fork(7), "T0!"), GenBigDoc(r.Fork(8), "T1")}
		if r.P(4, 5) {
			w.Docs = []string{GenMediumDoc(r.Fork(7), "T0!"), GenMediumDoc(r.Fork(8), "T1")}
		}
		ndocs = 2
		w.Exprs = nil
		nexpr = 1 + r.Intn(3)
		fam := pick(r, BigFamilies)
		for i := 0; i < nexpr; i++ {
			w.Exprs = append(w.Exprs, specOf(GenBigExprFamily(r.Fork(300+uint64(i)), fam)))
		}
		ntasks = 2 + r.Intn(3)
		bigRun = true
		if abortRun {
			w.Docs = []string{GenMediumDoc(aux.Fork(7), "T0!"), GenMediumDoc(aux.Fork(8), "T1~")}
			w.Exprs = nil
			nexpr = 1 + aux.Intn(2)
			fam = pick(aux, BigFamilies[:6])
			if forceBig {
				fam = force[4:]
			}
			for i := 0; i < nexpr; i++ {
				w.Exprs = append(w.Exprs, specOf(GenBigExprFamily(aux.Fork(300+uint64(i)), fam)))
			}
		}
	}
	famRun := !bigRun && r.P(1, 8)
	if force != "" {
		famRun = !forceBig && force != "storm" && force != "invalid"
	}
	if famRun {
		// several clients inside the same built-in function with different arguments
		fam := pick(r, FuncFamilies)
		if force != "" {
			fam = force
		}
		w.Fam = fam
		w.Exprs = nil
		nexpr = 2 + r.Intn(3)
		for i := 0; i < nexpr; i++ {
			w.Exprs = append(w.Exprs, specOf(GenFamilyExpr(r.Fork(400+uint64(i)), fam)))
		}
		ntasks = 3 + r.Intn(3)
	}
	badRun := !bigRun && !famRun && r.P(1, 25)
	if force != "" {
		badRun = force == "invalid"
	}
	if badRun {
		// several clients fail to compile different invalid texts at once (error
		// construction, error paths of the lexer and parser)
		w.Exprs = nil
		nexpr = 3 + r.Intn(4)
		for i := 0; i < nexpr; i++ {
			w.Exprs = append(w.Exprs, specOf(mutateText(r.Fork(500+uint64(i)), GenExpr(r.Fork(600+uint64(i)), Bias{Enum: 5, Lits: 30, Fail: 0, Let: 10, Unsafe: 50}))))
		}
		if r.P(1, 2) {
			// an escape sequence that fails half-way through being decoded, and
			// texts whose escapes decode fine, for the other clients
			bad := pick(r, []string{`"a\uD834\uZZZZ"`, `"\uD800\u12"`, `"x\uDBFF\uDFFG".y`, `"a\u12G4"`, `'a\`, `"\uD834\u0041"`})
			w.Exprs = append(w.Exprs, ExprSpec{Text: bad, Tree: &Expr{K: KRaw, S: bad}})
			for _, good := range []string{`"t\tb"`, `{"q\"t": "t\tb", "k": 'a\tb'}`, `"\u00e9" || 'x\'y'`} {
				w.Exprs = append(w.Exprs, ExprSpec{Text: good, Tree: &Expr{K: KRaw, S: good}})
			}
			nexpr = len(w.Exprs)
		}
		ntasks = 2 + r.Intn(3)
	}
	deep := !bigRun && !famRun && !badRun && r.P(1, 60) && force == ""
	if deep {
		// several clients parse deeply nested texts at the same time
		w.Exprs = nil
		nexpr = 1 + r.Intn(2)
		for i := 0; i < nexpr; i++ {
			n := pick(r, []int{300, 400, 450})
			op, cl := "(", ")"
			if r.P(1, 3) {
				op, cl = "[", "]"
			}
			t := strings.Repeat(op, n) + pick(r, []string{"n", "nums[0]", "tag", "`1`"}) + strings.Repeat(cl, n)
			w.Exprs = append(w.Exprs, ExprSpec{Text: t, Tree: &Expr{K: KRaw, S: t}})
		}
		ntasks = 3 + r.Intn(3)
	}
	nexpr = addTextVariants(r, w, nexpr)
	storm := r.P(1, 10) && !deep && !famRun && !badRun
	if force != "" {
		storm = force == "storm"
	}
	if storm {
		// compile storm: many clients compiling many different texts at once
		ntasks = 4 + r.Intn(4)
		for i := nexpr; i < 10+r.Intn(8); i++ {
			w.Exprs = append(w.Exprs, specOf(GenExpr(r.Fork(200+uint64(i)), Bias{Enum: 10, Lits: 40, Fail: 3, Let: 10, Unsafe: 50})))
		}
		nexpr = len(w.Exprs)
	}
	// at least one shared expression in most runs
	for i := 0; i < nexpr; i++ {
		if i == 0 && r.P(9, 10) || r.P(1, 2) {
			w.Shared = append(w.Shared, i)
		}
	}
	isShared := func(e int) bool {
		for _, s := range w.Shared {
			if s == e {
				return true
			}
		}
		return false
	}
	for t := 0; t < ntasks; t++ {
		nops := 1 + r.Intn(4)
		if storm {
			nops = 3 + r.Intn(5)
		}
		if bigRun {
			nops = 3 + r.Intn(3)
		}
		if famRun {
			nops = 3 + r.Intn(3)
		}
		if badRun {
			nops = 2 + r.Intn(3)
		}
		var ops []Op
		for k := 0; k < nops; k++ {
			if storm && r.P(1, 6) {
				ops = append(ops, Op{K: "churn", E: int(r.U64() % 1000), R: 40 + r.Intn(120)})
				continue
			}
			e := r.Intn(nexpr)
			op := Op{E: e, D: r.Intn(ndocs), Pol: randPolicy(r)}
			if abortRun {
				op.D = 1
				if k == 0 {
					op.D = 0
				}
			}
			switch {
			case deep:
				op.K = "compile"
			case isShared(e) && r.P(3, 4):
				op.K = "esearch"
			case r.P(1, 2):
				op.K = "search"
			case r.P(1, 8):
				op.K = "mustcompile"
			default:
				op.K = "compile"
			}
			ops = append(ops, op)
		}
		w.Tasks = append(w.Tasks, ops)
	}
	switch {
	case badRun:
		w.Note = "invalid"
	case famRun:
		w.Note = "family"
	case storm:
		w.Note = "storm"
	case abortRun:
		w.Note = "abort-overlap"
	case bigRun:
		w.Note = "big"
	case deep:
		w.Note = "deep"
	}
	w.Sched = randSchedule(r, ntasks, 5)
	if (famRun || storm) && r.P(1, 2) {
		// these runs are about narrow windows next to shared state
		w.Sched = simrt.Schedule{Kind: simrt.StratHotWalk, Seed: r.U64(), HotDen: pick(r, []uint64{2, 3}), WalkDen: pick(r, []uint64{512, 4096})}
	}
	if abortRun && aux.P(3, 4) {
		// the clients have to overlap inside the construct
		w.Sched = simrt.Schedule{Kind: simrt.StratWalk, Seed: aux.U64(), WalkDen: pick(aux, []uint64{32, 128, 512})}
		if aux.P(1, 3) {
			w.Sched = simrt.Schedule{Kind: simrt.StratHotWalk, Seed: aux.U64(), HotDen: pick(aux, []uint64{2, 3}), WalkDen: pick(aux, []uint64{128, 1024})}
		}
	}
	return w
}

// GenC06 derives one single-client history.
func GenC06(seed, index uint64, maxOps int) *Workload {
	r := NewRng(seed, 0xC06, index)
	w := &Workload{Prop: "C06", Seed: seed, Index: index}
	ndocs := 2 + r.Intn(4)
	poison := pick(r, []int{0, 3, 10})
	spare := pick(r, []int{30, 60, 90})
	for i := 0; i < ndocs; i++ {
		w.Docs = append(w.Docs, GenDoc(r.Fork(uint64(i)), "H"+strconv.Itoa(i), poison, spare))
	}
	w.Share = genShares(r, ndocs)
	bias := Bias{Enum: pick(r, []int{10, 25}), Lits: pick(r, []int{30, 60}), Fail: pick(r, []int{3, 10, 20}), Let: pick(r, []int{8, 20}), Unsafe: 50, Invalid: pick(r, []int{3, 10})}
	nexpr := 1 + r.Intn(3)
	for i := 0; i < nexpr; i++ {
		w.Exprs = append(w.Exprs, specOf(GenExpr(r.Fork(100+uint64(i)), bias)))
	}
	if r.P(1, 150) {
		w.Docs = []string{GenBigDoc(r.Fork(7), "H0!"), GenBigDoc(r.Fork(8), "H1")}
		ndocs = 2
		w.Exprs = nil
		nexpr = 1 + r.Intn(3)
		fam := pick(r, BigFamilies)
		for i := 0; i < nexpr; i++ {
			w.Exprs = append(w.Exprs, specOf(GenBigExprFamily(r.Fork(300+uint64(i)), fam)))
		}
	}
	if r.P(1, 15) {
		fam := pick(r, FuncFamilies)
		w.Exprs = nil
		nexpr = 2 + r.Intn(3)
		for i := 0; i < nexpr; i++ {
			w.Exprs = append(w.Exprs, specOf(GenFamilyExpr(r.Fork(400+uint64(i)), fam)))
		}
	}
	twins := r.P(1, 40)
	if twins {
		// two texts that differ only in white space INSIDE a literal or a quoted
		// identifier, used one after the other through every API path
		pair := pick(r, [][2]string{{`'it\'s  here'`, `'it\'s here'`}, {`'a  b'`, `'a b'`}, {"'a\tb'", `'a b'`}, {`"k  1"`, `"k 1"`}, {"split(s, '\t')", `split(s, ' ')`}, {"`\"x  y\"`", "`\"x y\"`"}})
		wrap := pick(r, []string{"%s", "[%s, tag]", "{\"v\": %s}", "not_null(%s, n)"})
		w.Exprs = nil
		for _, t := range pair {
			txt := strings.Replace(wrap, "%s", t, 1)
			w.Exprs = append(w.Exprs, ExprSpec{Text: txt, Tree: &Expr{K: KRaw, S: txt}})
		}
		nexpr = 2
	}
	nexpr = addTextVariants(r, w, nexpr)
	nops := 4 + r.Intn(maxOps-3)
	if r.P(1, 60) {
		nops = 100 + r.Intn(80) // behaviour that changes after N calls
	}
	var ops []Op
	nslots := 0
	nresults := 0
	docs := ndocs
	fed := map[int]bool{}
	lastSlot, lastDoc, afterMut := -1, -1, false
	for k := 0; k < nops; k++ {
		op := Op{Pol: randPolicy(r)}
		c := r.Intn(20)
		if afterMut && lastSlot >= 0 && r.P(7, 10) {
			// evaluate again what was evaluated before the caller changed its document
			afterMut = false
			op.K, op.Slot, op.D = "esearch", lastSlot, lastDoc
			nresults++
			ops = append(ops, op)
			continue
		}
		afterMut = false
		switch {
		case nslots == 0 || c == 0:
			op.K = "compile"
			if r.P(1, 4) {
				op.K = "mustcompile"
			}
			op.E = r.Intn(nexpr)
			op.Slot = nslots
			nslots++
		case c <= 10:
			op.K = "esearch"
			op.Slot = r.Intn(nslots)
			op.D = r.Intn(docs)
			nresults++
			lastSlot, lastDoc = op.Slot, op.D
		case c <= 13 || (twins && c <= 17):
			op.K = "search"
			op.E = r.Intn(nexpr)
			op.D = r.Intn(docs)
			nresults++
		case c <= 15 && nresults > 0:
			op.K = "feed"
			op.R = r.Intn(nresults)
			fed[docs] = true
			docs++
		case c == 16 && r.P(1, 8):
			op.K = "churn"
			op.E = int(r.U64() % 1000)
			op.R = 130 + r.Intn(140)
		case c <= 18:
			d := r.Intn(docs)
			if fed[d] {
				d = r.Intn(ndocs)
			}
			if lastDoc >= 0 && !fed[lastDoc] && r.P(2, 3) {
				d = lastDoc
			}
			op.K = "mutate"
			op.D = d
			op.Mut = r.U64() | 1
			afterMut = true
		default:
			op.K = "esearch"
			op.Slot = r.Intn(nslots)
			op.D = r.Intn(docs)
			nresults++
		}
		ops = append(ops, op)
	}
	w.Tasks = [][]Op{ops}
	w.Sched = simrt.Schedule{Kind: simrt.StratExplicit, Seed: r.U64()}
	if r.P(1, 3) {
		w.Sched = simrt.Schedule{Kind: simrt.StratWalk, Seed: r.U64(), WalkDen: pick(r, []uint64{4, 16, 64})}
	}
	if r.P(1, 5) {
		w.Sched.GCSteps = []uint64{uint64(r.Intn(3000))}
	}
	return w
}

// GenC15 derives one (expression, document) sample with its policy set.
func GenC15(seed, index uint64) *Workload {
	r := NewRng(seed, 0xC15, index)
	w := &Workload{Prop: "C15", Seed: seed, Index: index}
	w.Docs = []string{GenDoc(r.Fork(1), "S", pick(r, []int{0, 0, 5}), pick(r, []int{0, 30}))}
	bias := Bias{Enum: pick(r, []int{35, 60}), Lits: pick(r, []int{15, 40}), Fail: pick(r, []int{0, 4, 10}), Let: pick(r, []int{10, 25}), Unsafe: 5, Invalid: 1}
	w.Exprs = []ExprSpec{specOf(GenExpr(r.Fork(2), bias))}
	if r.P(1, 100) {
		w.Docs = []string{GenBigDoc(r.Fork(3), "S")}
		w.Exprs = []ExprSpec{specOf(GenBigExpr(r.Fork(4)))}
	}
	if r.P(1, 60) {
		// twin sample: two texts that differ only in white space inside a
		// literal or quoted identifier; both are evaluated in this process and,
		// in shuffled order, in the oracle process
		pair := pick(r, [][2]string{{`'it\'s  here'`, `'it\'s here'`}, {`'a  b'`, `'a b'`}, {"'a\tb'", `'a b'`}, {`"k  1"`, `"k 1"`}, {"split(s, '\t')", `split(s, ' ')`}, {"`\"x  y\"`", "`\"x y\"`"}})
		wrap := pick(r, []string{"%s", "[%s, tag]", "{\"v\": %s}", "not_null(%s, n)"})
		w.Exprs = nil
		i := r.Intn(2)
		for _, t := range []string{pair[i], pair[1-i]} {
			txt := strings.Replace(wrap, "%s", t, 1)
			w.Exprs = append(w.Exprs, ExprSpec{Text: txt, Tree: &Expr{K: KRaw, S: txt}})
		}
		w.Note += " twins"
	} else if r.P(1, 25) {
		w.Docs = []string{GenMediumDoc(r.Fork(3), "S")}
		w.Exprs = []ExprSpec{specOf(GenBigExpr(r.Fork(4)))}
	} else if r.P(1, 20) {
		w.Exprs = []ExprSpec{specOf(GenFamilyExpr(r.Fork(4), pick(r, FuncFamilies)))}
	}
	w.Policies = []simrt.Policy{
		{Kind: simrt.PolSorted}, {Kind: simrt.PolReverse},
		{Kind: simrt.PolRotate, Seed: uint64(1 + r.Intn(4))},
		{Kind: simrt.PolHash, Seed: r.U64() >> 8}, {Kind: simrt.PolPerRange, Seed: r.U64() >> 8},
		{Kind: simrt.PolNative},
	}
	w.Sched = simrt.Schedule{Kind: simrt.StratExplicit, Seed: r.U64()}
	if r.P(1, 2) {
		// only matters if the library starts goroutines of its own: they become
		// simulated tasks and this walk decides how they interleave
		w.Sched = simrt.Schedule{Kind: simrt.StratWalk, Seed: r.U64(), WalkDen: pick(r, []uint64{4, 16, 64})}
	}
	if r.P(1, 8) {
		// forced collections in the middle of evaluations (fault F6)
		n := 1 + r.Intn(3)
		span := 20000
		if len(w.Docs[0]) > 50000 {
			span = 300000
		}
		var gs []uint64
		for i := 0; i < n; i++ {
			gs = append(gs, uint64(r.Intn(span)))
		}
		sort.Slice(gs, func(a, b int) bool { return gs[a] < gs[b] })
		w.Sched.GCSteps = gs
	}
	if r.P(1, 40) {
		w.Note += " long-reuse"
	}
	if r.P(1, 30) {
		w.Note += " gc-between"
	}
	return w
}

// addTextVariants sometimes adds the same expression text again, padded with
// white space the grammar accepts (space, tab, newline, carriage return) or
// with Unicode space characters it does not accept.
func addTextVariants(r *Rng, w *Workload, nexpr int) int {
	if !r.P(1, 4) {
		return nexpr
	}
	base := w.Exprs[r.Intn(nexpr)].Text
	if r.P(1, 3) {
		// the same text with its runs of white space collapsed (significant
		// inside string literals and quoted identifiers)
		t := strings.Join(strings.Fields(base), " ")
		if t != base {
			w.Exprs = append(w.Exprs, ExprSpec{Text: t, Tree: &Expr{K: KRaw, S: t}})
			return len(w.Exprs)
		}
	}
	pads := []string{" ", "\t", "\n", "\r\n ", "\f", "\v", "\u0085", "\u00a0", "\u2003", "\u3000"}
	n := 1 + r.Intn(2)
	for i := 0; i < n; i++ {
		t := base
		if r.P(2, 3) {
			t = pick(r, pads) + t
		}
		if r.P(2, 3) {
			t = t + pick(r, pads)
		}
		w.Exprs = append(w.Exprs, ExprSpec{Text: t, Tree: &Expr{K: KRaw, S: t}})
	}
	return len(w.Exprs)
}
