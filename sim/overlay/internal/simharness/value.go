package main

import (
	"encoding/hex"
	"encoding/json"
	"fmt"
	"math"
	"math/big"
	"reflect"
	"sort"
	"strconv"
	"strings"
	"unicode/utf8"

	"github.com/woodsbury/decimal128"
)

// ---------------------------------------------------------------------------
// Typed value encoding.
//
// Documents, results and outcomes cross process boundaries (oracle process,
// replay files), so every Go value the library can see or return is written
// in a typed form that round-trips exactly:
//
//   null | true | false | "str"
//   {"n":"<kind>:<text>"}             number of Go kind <kind>
//   [v, ...]                          []any with cap == len
//   {"a":[v,...],"cap":k}             []any with k spare slots filled with sentinels
//   {"o":{"k":v,...},"ord":s}         map[string]any; s permutes the insertion order
//   {"def":id,"v":value} / {"ref":id} shared sub-tree (same Go value reachable twice)
// ---------------------------------------------------------------------------

const sentinelPrefix = "\x00SENTINEL#"

func sentinel(i int) any { return sentinelPrefix + strconv.Itoa(i) }

func encNumber(v any) (string, bool) {
	switch x := v.(type) {
	case float64:
		return "f64:" + strconv.FormatFloat(x, 'g', -1, 64), true
	case float32:
		return "f32:" + strconv.FormatFloat(float64(x), 'g', -1, 32), true
	case int:
		return "int:" + strconv.FormatInt(int64(x), 10), true
	case int8:
		return "i8:" + strconv.FormatInt(int64(x), 10), true
	case int16:
		return "i16:" + strconv.FormatInt(int64(x), 10), true
	case int32:
		return "i32:" + strconv.FormatInt(int64(x), 10), true
	case int64:
		return "i64:" + strconv.FormatInt(x, 10), true
	case uint:
		return "u:" + strconv.FormatUint(uint64(x), 10), true
	case uint8:
		return "u8:" + strconv.FormatUint(uint64(x), 10), true
	case uint16:
		return "u16:" + strconv.FormatUint(uint64(x), 10), true
	case uint32:
		return "u32:" + strconv.FormatUint(uint64(x), 10), true
	case uint64:
		return "u64:" + strconv.FormatUint(x, 10), true
	case json.Number:
		return "jn:" + string(x), true
	case decimal128.Decimal:
		b, _ := x.MarshalBinary()
		return "dec:" + hex.EncodeToString(b) + ":" + x.String(), true
	}
	return "", false
}

func decNumber(s string) (any, error) {
	i := strings.IndexByte(s, ':')
	if i < 0 {
		return nil, fmt.Errorf("bad number %q", s)
	}
	kind, text := s[:i], s[i+1:]
	pi := func(bits int) (int64, error) { return strconv.ParseInt(text, 10, bits) }
	pu := func(bits int) (uint64, error) { return strconv.ParseUint(text, 10, bits) }
	switch kind {
	case "f64":
		f, err := strconv.ParseFloat(text, 64)
		return f, err
	case "f32":
		f, err := strconv.ParseFloat(text, 32)
		return float32(f), err
	case "int":
		n, err := pi(64)
		return int(n), err
	case "i8":
		n, err := pi(8)
		return int8(n), err
	case "i16":
		n, err := pi(16)
		return int16(n), err
	case "i32":
		n, err := pi(32)
		return int32(n), err
	case "i64":
		n, err := pi(64)
		return n, err
	case "u":
		n, err := pu(64)
		return uint(n), err
	case "u8":
		n, err := pu(8)
		return uint8(n), err
	case "u16":
		n, err := pu(16)
		return uint16(n), err
	case "u32":
		n, err := pu(32)
		return uint32(n), err
	case "u64":
		n, err := pu(64)
		return n, err
	case "jn":
		return json.Number(text), nil
	case "dec":
		j := strings.IndexByte(text, ':')
		if j < 0 {
			return nil, fmt.Errorf("bad decimal %q", s)
		}
		b, err := hex.DecodeString(text[:j])
		if err != nil {
			return nil, err
		}
		var d decimal128.Decimal
		if err := d.UnmarshalBinary(b); err != nil {
			return nil, err
		}
		return d, nil
	}
	return nil, fmt.Errorf("bad number kind %q", kind)
}

type encoder struct {
	b    strings.Builder
	seen map[uintptr]int // container identity -> def id (only when shared)
	cnt  map[uintptr]int
	next int
	caps bool // write spare capacity
}

func ptrOf(v any) uintptr {
	switch x := v.(type) {
	case []any:
		if cap(x) == 0 {
			return 0
		}
		return reflect.ValueOf(x).Pointer()
	case map[string]any:
		if x == nil {
			return 0
		}
		return reflect.ValueOf(x).Pointer()
	}
	return 0
}

// Enc writes v in the typed encoding. Sharing is not preserved (a DAG is
// written as a tree); spare capacity is written when caps is true.
func Enc(v any) string {
	e := encoder{}
	e.enc(v)
	return e.b.String()
}

func EncCaps(v any) string {
	e := encoder{caps: true}
	e.enc(v)
	return e.b.String()
}

func jsonString(s string) string {
	// exact, binary-safe: JSON escapes with \u00XX for invalid UTF-8 bytes would
	// lose information, so invalid strings are written as {"x":"hex"}
	if !validUTF8(s) {
		return `{"x":"` + hex.EncodeToString([]byte(s)) + `"}`
	}
	return quoteJSON(s)
}

// quoteJSON writes a valid UTF-8 string as a JSON string without going
// through encoding/json: that package keeps its encoder states in a
// sync.Pool, and a pool hand-over between two simulated clients would be a
// happens-before edge that the harness, not the library, put there (it could
// hide a race between them).
func quoteJSON(s string) string {
	const hexd = "0123456789abcdef"
	b := make([]byte, 0, len(s)+2)
	b = append(b, '"')
	for i := 0; i < len(s); i++ {
		c := s[i]
		switch {
		case c == '"' || c == '\\':
			b = append(b, '\\', c)
		case c == '\n':
			b = append(b, '\\', 'n')
		case c == '\t':
			b = append(b, '\\', 't')
		case c == '\r':
			b = append(b, '\\', 'r')
		case c < 0x20 || c == 0x7f:
			b = append(b, '\\', 'u', '0', '0', hexd[c>>4], hexd[c&15])
		case c == '<' || c == '>' || c == '&':
			b = append(b, '\\', 'u', '0', '0', hexd[c>>4], hexd[c&15])
		default:
			b = append(b, c)
		}
	}
	b = append(b, '"')
	return string(b)
}

func validUTF8(s string) bool { return utf8.ValidString(s) }

func (e *encoder) enc(v any) {
	switch x := v.(type) {
	case nil:
		e.b.WriteString("null")
	case bool:
		if x {
			e.b.WriteString("true")
		} else {
			e.b.WriteString("false")
		}
	case string:
		e.b.WriteString(jsonString(x))
	case []any:
		spare := cap(x) - len(x)
		wrap := e.caps && spare > 0
		if wrap {
			e.b.WriteString(`{"a":`)
		}
		if x == nil {
			e.b.WriteString(`{"nil":"a"}`)
		} else {
			e.b.WriteByte('[')
			for i, el := range x {
				if i > 0 {
					e.b.WriteByte(',')
				}
				e.enc(el)
			}
			e.b.WriteByte(']')
		}
		if wrap {
			e.b.WriteString(`,"cap":` + strconv.Itoa(spare) + "}")
		}
	case map[string]any:
		if x == nil {
			e.b.WriteString(`{"nil":"o"}`)
			return
		}
		keys := make([]string, 0, len(x))
		for k := range x {
			keys = append(keys, k)
		}
		sort.Strings(keys)
		e.b.WriteString(`{"o":[`)
		for i, k := range keys {
			if i > 0 {
				e.b.WriteByte(',')
			}
			e.b.WriteString(jsonString(k))
			e.b.WriteByte(',')
			e.enc(x[k])
		}
		e.b.WriteString("]}")
	default:
		if s, ok := encNumber(v); ok {
			e.b.WriteString(`{"n":` + jsonString(s) + "}")
			return
		}
		// a value outside the JSON data model: describe it, never decode it
		e.b.WriteString(`{"go":` + jsonString(fmt.Sprintf("%T:%v", v, v)) + "}")
	}
}

// Dec decodes the typed encoding. ord (if nonzero) together with the "ord"
// members chooses map insertion orders; each call builds fresh values.
type decoder struct {
	defs map[string]any
	ord  uint64
}

func Dec(s string) (any, error) { return DecOrd(s, 0) }

func DecOrd(s string, ord uint64) (any, error) {
	d := json.NewDecoder(strings.NewReader(s))
	d.UseNumber()
	var raw any
	if err := d.Decode(&raw); err != nil {
		return nil, fmt.Errorf("decode %q: %v", trunc(s, 80), err)
	}
	dc := decoder{defs: map[string]any{}, ord: ord}
	return dc.conv(raw)
}

func MustDec(s string) any {
	v, err := Dec(s)
	if err != nil {
		panic("harness: " + err.Error())
	}
	return v
}

func trunc(s string, n int) string {
	if len(s) <= n {
		return s
	}
	return s[:n] + "..."
}

func (d *decoder) conv(raw any) (any, error) {
	switch x := raw.(type) {
	case nil:
		return nil, nil
	case bool:
		return x, nil
	case string:
		return x, nil
	case json.Number:
		return nil, fmt.Errorf("bare number %v in typed encoding", x)
	case []any:
		out := make([]any, len(x))
		for i, el := range x {
			v, err := d.conv(el)
			if err != nil {
				return nil, err
			}
			out[i] = v
		}
		return out, nil
	case map[string]any:
		if n, ok := x["n"]; ok {
			s, _ := n.(string)
			return decNumber(s)
		}
		if h, ok := x["x"]; ok {
			s, _ := h.(string)
			b, err := hex.DecodeString(s)
			return string(b), err
		}
		if k, ok := x["nil"]; ok {
			if k == "a" {
				return []any(nil), nil
			}
			return map[string]any(nil), nil
		}
		if r, ok := x["ref"]; ok {
			id := fmt.Sprint(r)
			v, ok := d.defs[id]
			if !ok {
				return nil, fmt.Errorf("ref %s before def", id)
			}
			return v, nil
		}
		if id, ok := x["win"]; ok {
			// a window onto an array defined earlier: shares its backing array
			// (and its capacity) with it
			base, ok := d.defs[fmt.Sprint(id)].([]any)
			if !ok {
				return nil, fmt.Errorf("win %v: no such array", id)
			}
			lo, hi := 0, len(base)
			if n, ok := x["lo"].(json.Number); ok {
				v, _ := n.Int64()
				lo = int(v)
			}
			if n, ok := x["hi"].(json.Number); ok {
				v, _ := n.Int64()
				hi = int(v)
			}
			if lo < 0 {
				lo = 0
			}
			if hi > len(base) {
				hi = len(base)
			}
			if lo > hi {
				lo = hi
			}
			return base[lo:hi], nil
		}
		if id, ok := x["def"]; ok {
			v, err := d.conv(x["v"])
			if err != nil {
				return nil, err
			}
			d.defs[fmt.Sprint(id)] = v
			return v, nil
		}
		if a, ok := x["a"]; ok {
			inner, err := d.conv(a)
			if err != nil {
				return nil, err
			}
			arr, _ := inner.([]any)
			spare := 0
			if c, ok := x["cap"].(json.Number); ok {
				n, _ := c.Int64()
				spare = int(n)
			}
			out := make([]any, len(arr), len(arr)+spare)
			copy(out, arr)
			full := out[:cap(out)]
			for i := len(arr); i < len(full); i++ {
				full[i] = sentinel(i)
			}
			return out, nil
		}
		if o, ok := x["o"]; ok {
			kv, ok := o.([]any)
			if !ok || len(kv)%2 != 0 {
				return nil, fmt.Errorf("bad object encoding")
			}
			n := len(kv) / 2
			idx := make([]int, n)
			for i := range idx {
				idx[i] = i
			}
			ord := d.ord
			if c, ok := x["ord"].(json.Number); ok {
				u, _ := strconv.ParseUint(string(c), 10, 64)
				ord ^= u
			}
			if ord != 0 {
				st := ord
				for i := n - 1; i > 0; i-- {
					j := int(splitmix64(&st) % uint64(i+1))
					idx[i], idx[j] = idx[j], idx[i]
				}
			}
			// values are converted in encoding order so that def precedes ref
			vals := make([]any, n)
			for i := 0; i < n; i++ {
				v, err := d.conv(kv[2*i+1])
				if err != nil {
					return nil, err
				}
				vals[i] = v
			}
			out := make(map[string]any, n)
			for _, i := range idx {
				k, ok := kv[2*i].(string)
				if !ok {
					if m, ok2 := kv[2*i].(map[string]any); ok2 {
						if h, ok3 := m["x"].(string); ok3 {
							b, _ := hex.DecodeString(h)
							k = string(b)
							ok = true
						}
					}
					if !ok {
						return nil, fmt.Errorf("bad object key")
					}
				}
				out[k] = vals[i]
			}
			return out, nil
		}
		if g, ok := x["go"]; ok {
			return fmt.Sprintf("<go:%v>", g), nil
		}
		return nil, fmt.Errorf("unknown wrapper %v", x)
	}
	return nil, fmt.Errorf("unexpected %T", raw)
}

func splitmix64(x *uint64) uint64 {
	*x += 0x9e3779b97f4a7c15
	z := *x
	z = (z ^ (z >> 30)) * 0xbf58476d1ce4e5b9
	z = (z ^ (z >> 27)) * 0x94d049bb133111eb
	return z ^ (z >> 31)
}

func hmix(h, v uint64) uint64 {
	h ^= v + 0x9e3779b97f4a7c15 + (h << 6) + (h >> 2)
	h *= 0xff51afd7ed558ccd
	return h ^ (h >> 32)
}

func hstr(h uint64, s string) uint64 {
	h = hmix(h, uint64(len(s)))
	for i := 0; i < len(s); i++ {
		h = (h ^ uint64(s[i])) * 0x100000001b3
	}
	return h
}

// ---------------------------------------------------------------------------
// Fingerprint of caller-visible memory: contents, container identity, length,
// capacity and the spare slots of every slice reachable from v.
// ---------------------------------------------------------------------------

func Fingerprint(v any) uint64 { return fpr(0x1234567, v) }

func fpr(h uint64, v any) uint64 {
	switch x := v.(type) {
	case nil:
		return hmix(h, 1)
	case bool:
		if x {
			return hmix(h, 3)
		}
		return hmix(h, 2)
	case string:
		return hstr(hmix(h, 4), x)
	case []any:
		h = hmix(h, 5)
		h = hmix(h, uint64(ptrOf(x)))
		h = hmix(h, uint64(len(x))<<32|uint64(cap(x)))
		full := x[:cap(x)]
		for _, el := range full {
			h = fpr(h, el)
		}
		return h
	case map[string]any:
		h = hmix(h, 6)
		h = hmix(h, uint64(ptrOf(x)))
		keys := make([]string, 0, len(x))
		for k := range x {
			keys = append(keys, k)
		}
		sort.Strings(keys)
		for _, k := range keys {
			h = hstr(h, k)
			h = fpr(h, x[k])
		}
		return h
	}
	if s, ok := encNumber(v); ok {
		return hstr(hmix(h, 7), s)
	}
	return hstr(hmix(h, 8), fmt.Sprintf("%T:%v", v, v))
}

// ---------------------------------------------------------------------------
// Generic reflect fingerprint (used only as a coverage probe on *Expression:
// "did the compiled expression's internal state change?").
// ---------------------------------------------------------------------------

func ReflectFingerprint(v any) uint64 {
	seen := map[uintptr]bool{}
	return rfp(0x77, reflect.ValueOf(v), seen, 0)
}

func rfp(h uint64, v reflect.Value, seen map[uintptr]bool, depth int) uint64 {
	if !v.IsValid() || depth > 200 {
		return hmix(h, 0)
	}
	h = hmix(h, uint64(v.Kind()))
	switch v.Kind() {
	case reflect.Bool:
		if v.Bool() {
			return hmix(h, 1)
		}
		return hmix(h, 2)
	case reflect.Int, reflect.Int8, reflect.Int16, reflect.Int32, reflect.Int64:
		return hmix(h, uint64(v.Int()))
	case reflect.Uint, reflect.Uint8, reflect.Uint16, reflect.Uint32, reflect.Uint64, reflect.Uintptr:
		return hmix(h, v.Uint())
	case reflect.Float32, reflect.Float64:
		return hmix(h, math.Float64bits(v.Float()))
	case reflect.String:
		return hstr(h, v.String())
	case reflect.Pointer:
		if v.IsNil() {
			return hmix(h, 9)
		}
		p := v.Pointer()
		if seen[p] {
			return hmix(h, 10)
		}
		seen[p] = true
		return rfp(h, v.Elem(), seen, depth+1)
	case reflect.Interface:
		if v.IsNil() {
			return hmix(h, 11)
		}
		return rfp(hstr(h, v.Elem().Type().String()), v.Elem(), seen, depth+1)
	case reflect.Struct:
		for i := 0; i < v.NumField(); i++ {
			h = rfp(h, v.Field(i), seen, depth+1)
		}
		return h
	case reflect.Slice:
		if v.IsNil() {
			return hmix(h, 12)
		}
		h = hmix(h, uint64(v.Len())<<32|uint64(v.Cap()))
		for i := 0; i < v.Len(); i++ {
			h = rfp(h, v.Index(i), seen, depth+1)
		}
		return h
	case reflect.Array:
		for i := 0; i < v.Len(); i++ {
			h = rfp(h, v.Index(i), seen, depth+1)
		}
		return h
	case reflect.Map:
		if v.IsNil() {
			return hmix(h, 13)
		}
		type kv struct {
			k uint64
			v reflect.Value
		}
		var items []kv
		it := v.MapRange()
		for it.Next() {
			items = append(items, kv{rfp(0x55, it.Key(), map[uintptr]bool{}, depth+1), it.Value()})
		}
		sort.Slice(items, func(a, b int) bool { return items[a].k < items[b].k })
		for _, it := range items {
			h = hmix(h, it.k)
			h = rfp(h, it.v, seen, depth+1)
		}
		return h
	case reflect.Func, reflect.Chan, reflect.UnsafePointer:
		if v.IsNil() {
			return hmix(h, 14)
		}
		return hmix(h, 15)
	}
	return h
}

// ---------------------------------------------------------------------------
// Canonical forms for order-insensitive comparison (C15 only).
// ---------------------------------------------------------------------------

func numCanon(v any) (string, bool) {
	r := new(big.Rat)
	switch x := v.(type) {
	case float64:
		if math.IsNaN(x) || math.IsInf(x, 0) {
			return "#" + strconv.FormatFloat(x, 'g', -1, 64), true
		}
		r.SetFloat64(x)
	case float32:
		f := float64(x)
		if math.IsNaN(f) || math.IsInf(f, 0) {
			return "#" + strconv.FormatFloat(f, 'g', -1, 32), true
		}
		r.SetFloat64(f)
	case int:
		r.SetInt64(int64(x))
	case int8:
		r.SetInt64(int64(x))
	case int16:
		r.SetInt64(int64(x))
	case int32:
		r.SetInt64(int64(x))
	case int64:
		r.SetInt64(x)
	case uint:
		r.SetUint64(uint64(x))
	case uint8:
		r.SetUint64(uint64(x))
	case uint16:
		r.SetUint64(uint64(x))
	case uint32:
		r.SetUint64(uint64(x))
	case uint64:
		r.SetUint64(x)
	case json.Number:
		if _, ok := r.SetString(string(x)); !ok {
			return "#jn:" + string(x), true
		}
	case decimal128.Decimal:
		if x.IsNaN() || x.IsInf(0) {
			return "#" + x.String(), true
		}
		x.Rat(r)
	default:
		return "", false
	}
	return "#" + r.RatString(), true
}
