package main

import (
	"encoding/json"
	"sort"
	"strconv"
	"strings"
)

// Expr is the generator's own expression tree. It is rendered to JMESPath
// text (fully parenthesised so that the text parses to this very structure)
// and analysed for its comparison mode (C15). It never looks at the library's
// AST.
type Expr struct {
	K    string   `json:"k"`
	S    string   `json:"s,omitempty"`  // field name, literal, function or variable name, operator
	N    []int    `json:"n,omitempty"`  // index / slice parts
	F    []bool   `json:"f,omitempty"`  // slice parts present
	C    []*Expr  `json:"c,omitempty"`  // children (nil entries allowed where documented)
	Keys []string `json:"ks,omitempty"` // hash keys / let variable names
}

// Kinds.
const (
	KCur    = "cur"    // @
	KRoot   = "root"   // $
	KField  = "field"  // S
	KLit    = "lit"    // `S` (S is JSON text)
	KStr    = "str"    // 'S'
	KVar    = "var"    // $S
	KSub    = "sub"    // C0.C1
	KPipe   = "pipe"   // C0 | C1
	KIndex  = "index"  // C0[N0]       (C0 may be nil: current)
	KSlice  = "slice"  // (C0[a:b:c])  (C0 may be nil)
	KSProj  = "sproj"  // C0[a:b:c].C1 (C0 may be nil, C1 may be nil -> same as slice on arrays)
	KProj   = "proj"   // C0[*].C1     (C0, C1 may be nil)
	KOProj  = "oproj"  // C0.*.C1      (C0, C1 may be nil)
	KFlat   = "flat"   // C0[].C1      (C0, C1 may be nil)
	KFilter = "filter" // C0[?C1].C2   (C0, C2 may be nil)
	KList   = "list"   // [C...]
	KHash   = "hash"   // {Keys: C...}
	KBin    = "bin"    // C0 S C1
	KNot    = "not"    // !C0
	KNeg    = "neg"    // -C0
	KFunc   = "func"   // S(C...)
	KRef    = "ref"    // &C0 (function argument only)
	KLet    = "let"    // let $Keys = C[i] ... in C[last]
	KRaw    = "raw"    // S verbatim (hand-written or deliberately invalid text)
)

func mk(k string, c ...*Expr) *Expr     { return &Expr{K: k, C: c} }
func mkS(k, s string, c ...*Expr) *Expr { return &Expr{K: k, S: s, C: c} }
func field(name string) *Expr           { return &Expr{K: KField, S: name} }
func lit(jsonText string) *Expr         { return &Expr{K: KLit, S: jsonText} }
func fn(name string, args ...*Expr) *Expr {
	return &Expr{K: KFunc, S: name, C: args}
}

func (e *Expr) clone() *Expr {
	if e == nil {
		return nil
	}
	c := *e
	c.N = append([]int(nil), e.N...)
	c.F = append([]bool(nil), e.F...)
	c.Keys = append([]string(nil), e.Keys...)
	c.C = make([]*Expr, len(e.C))
	for i, ch := range e.C {
		c.C[i] = ch.clone()
	}
	return &c
}

func (e *Expr) size() int {
	if e == nil {
		return 0
	}
	n := 1
	for _, c := range e.C {
		n += c.size()
	}
	return n
}

// ---------------------------------------------------------------------------
// Rendering
// ---------------------------------------------------------------------------

func isAtom(e *Expr) bool {
	switch e.K {
	case KField, KCur, KRoot, KVar, KLit, KStr, KFunc, KList, KHash:
		return true
	}
	return false
}

// openProj: does the rendering of e end in a projection that would capture a
// following ".x" or "[i]"?
func openProj(e *Expr) bool {
	switch e.K {
	case KProj, KOProj, KFlat, KFilter, KSProj, KSlice:
		return true
	case KSub:
		return openProj(e.C[0]) || openProj(e.C[1])
	case KIndex:
		return e.C[0] != nil && openProj(e.C[0])
	}
	return false
}

// atomText renders e for a position that is followed by "." or "[".
func atomText(e *Expr) string {
	if isAtom(e) {
		return e.Text()
	}
	if (e.K == KSub || e.K == KIndex) && !openProj(e) {
		return e.Text()
	}
	return "(" + e.Text() + ")"
}

// opndText renders e as an operand of a unary/binary operator.
func opndText(e *Expr) string {
	if isAtom(e) {
		return e.Text()
	}
	return "(" + e.Text() + ")"
}

// argText renders e as a list element / function argument / hash value.
func argText(e *Expr) string {
	if e.K == KPipe || e.K == KLet {
		return "(" + e.Text() + ")"
	}
	return e.Text()
}

func quoteIdent(s string) string {
	plain := s != ""
	for i, r := range s {
		if !(r == '_' || (r >= 'a' && r <= 'z') || (r >= 'A' && r <= 'Z') || (i > 0 && r >= '0' && r <= '9')) {
			plain = false
		}
	}
	if plain && s != "let" && s != "in" {
		return s
	}
	b, _ := json.Marshal(s)
	return string(b)
}

// tailText renders e as the right-hand side of "." (after a projection or a
// sub-expression). ok is false if e cannot stand there.
func tailText(e *Expr) (string, bool) {
	if e == nil {
		return "", false
	}
	switch e.K {
	case KField, KHash, KList, KFunc:
		return e.Text(), true
	case KOProj:
		if e.C[0] != nil {
			l, ok := tailText(e.C[0])
			if !ok {
				return "", false
			}
			s := l + ".*"
			if e.C[1] != nil {
				r, ok := tailText(e.C[1])
				if !ok {
					return "", false
				}
				s += "." + r
			}
			return s, true
		}
		s := "*"
		if e.C[1] != nil {
			r, ok := tailText(e.C[1])
			if !ok {
				return "", false
			}
			s += "." + r
		}
		return s, true
	case KSub:
		l, ok := tailText(e.C[0])
		if !ok || openProj(e.C[0]) {
			return "", false
		}
		r, ok := tailText(e.C[1])
		if !ok {
			return "", false
		}
		return l + "." + r, true
	case KIndex:
		if e.C[0] == nil {
			return "", false
		}
		l, ok := tailText(e.C[0])
		if !ok || openProj(e.C[0]) {
			return "", false
		}
		return l + "[" + strconv.Itoa(e.N[0]) + "]", true
	case KProj:
		if e.C[0] == nil {
			return "", false
		}
		l, ok := tailText(e.C[0])
		if !ok || openProj(e.C[0]) {
			return "", false
		}
		s := l + "[*]"
		if e.C[1] != nil {
			r, ok := tailText(e.C[1])
			if !ok {
				return "", false
			}
			s += "." + r
		}
		return s, true
	}
	return "", false
}

func sliceText(e *Expr) string {
	var b strings.Builder
	b.WriteByte('[')
	for i := 0; i < 3; i++ {
		if i > 0 {
			if i == 2 && !(len(e.F) > 2 && e.F[2]) {
				break
			}
			b.WriteByte(':')
		}
		if i < len(e.F) && e.F[i] {
			b.WriteString(strconv.Itoa(e.N[i]))
		}
	}
	b.WriteByte(']')
	return b.String()
}

// bracketTail: right-hand sides of a projection that start with a bracket and
// follow it without a dot: a[*][0], a[*][?p], a[*][*].x
func bracketTail(e *Expr) (string, bool) {
	switch e.K {
	case KIndex:
		if e.C[0] == nil {
			return "[" + strconv.Itoa(e.N[0]) + "]", true
		}
	case KFilter:
		if e.C[0] == nil && e.C[2] == nil {
			return "[?" + argText(e.C[1]) + "]", true
		}
	case KProj:
		if e.C[0] == nil {
			s := "[*]"
			if e.C[1] != nil {
				if t, ok := tailText(e.C[1]); ok {
					return s + "." + t, true
				}
				return "", false
			}
			return s, true
		}
	}
	return "", false
}

func rhs(e *Expr) string {
	if e == nil {
		return ""
	}
	if t, ok := tailText(e); ok {
		return "." + t
	}
	if t, ok := bracketTail(e); ok {
		return t
	}
	// not expressible as a chain: stop the projection and map instead is not
	// equivalent, so the generator never builds this; render defensively with
	// a function wrapper that is the identity on its argument.
	return ".not_null(" + argText(e) + ")"
}

func (e *Expr) Text() string {
	switch e.K {
	case KRaw:
		return e.S
	case KCur:
		return "@"
	case KRoot:
		return "$"
	case KField:
		return quoteIdent(e.S)
	case KLit:
		return "`" + strings.ReplaceAll(e.S, "`", "\\`") + "`"
	case KStr:
		if len(e.F) > 0 && e.F[0] {
			return "'" + e.S + "'" // verbatim body (may look like an escape sequence)
		}
		return "'" + strings.ReplaceAll(strings.ReplaceAll(e.S, "\\", "\\\\"), "'", "\\'") + "'"
	case KVar:
		return "$" + e.S
	case KSub:
		if t, ok := tailText(e.C[1]); ok {
			return atomText(e.C[0]) + "." + t
		}
		return opndText(e.C[0]) + " | " + opndText(e.C[1])
	case KPipe:
		return argTextPipe(e.C[0]) + " | " + argTextPipe(e.C[1])
	case KIndex:
		if e.C[0] == nil {
			return "[" + strconv.Itoa(e.N[0]) + "]"
		}
		return atomText(e.C[0]) + "[" + strconv.Itoa(e.N[0]) + "]"
	case KSlice:
		if e.C[0] == nil {
			return sliceText(e)
		}
		return atomText(e.C[0]) + sliceText(e)
	case KSProj:
		l := ""
		if e.C[0] != nil {
			l = atomText(e.C[0])
		}
		return l + sliceText(e) + rhs(e.C[1])
	case KProj:
		l := ""
		if e.C[0] != nil {
			l = atomText(e.C[0])
		}
		return l + "[*]" + rhs(e.C[1])
	case KOProj:
		l := "*"
		if e.C[0] != nil {
			l = atomText(e.C[0]) + ".*"
		}
		return l + rhs(e.C[1])
	case KFlat:
		l := ""
		if e.C[0] != nil {
			l = atomText(e.C[0])
		}
		return l + "[]" + rhs(e.C[1])
	case KFilter:
		l := ""
		if e.C[0] != nil {
			l = atomText(e.C[0])
		}
		return l + "[?" + argText(e.C[1]) + "]" + rhs(e.C[2])
	case KList:
		parts := make([]string, len(e.C))
		for i, c := range e.C {
			parts[i] = argText(c)
		}
		return "[" + strings.Join(parts, ", ") + "]"
	case KHash:
		parts := make([]string, len(e.C))
		for i, c := range e.C {
			k, _ := json.Marshal(e.Keys[i])
			parts[i] = string(k) + ": " + argText(c)
		}
		return "{" + strings.Join(parts, ", ") + "}"
	case KBin:
		return opndText(e.C[0]) + " " + e.S + " " + opndText(e.C[1])
	case KNot:
		return "!" + opndText(e.C[0])
	case KNeg:
		return "-" + opndText(e.C[0])
	case KFunc:
		parts := make([]string, len(e.C))
		for i, c := range e.C {
			parts[i] = argText(c)
		}
		return e.S + "(" + strings.Join(parts, ", ") + ")"
	case KRef:
		return "&" + opndText(e.C[0])
	case KLet:
		n := len(e.C) - 1
		parts := make([]string, n)
		for i := 0; i < n; i++ {
			parts[i] = "$" + e.Keys[i] + " = " + argText(e.C[i])
		}
		return "let " + strings.Join(parts, ", ") + " in " + argText(e.C[n])
	}
	return "<?" + e.K + ">"
}

func argTextPipe(e *Expr) string {
	if e.K == KLet {
		return "(" + e.Text() + ")"
	}
	return e.Text()
}

// ---------------------------------------------------------------------------
// Comparison modes (C15). See DESIGN.md §3.8. D is "strictly equal"; the
// others say where element order is allowed to vary because it comes from
// enumerating an object's members. U means: nothing may be compared across
// different map orders (an order-sensitive consumer sits downstream of an
// enumeration).
// ---------------------------------------------------------------------------

type Mode struct {
	K  byte     `json:"k"`            // 'D','B','L','T','H','A','X','U'
	E  *Mode    `json:"e,omitempty"`  // B, L, A
	T  []*Mode  `json:"t,omitempty"`  // T
	Hk []string `json:"hk,omitempty"` // H
	Hv []*Mode  `json:"hv,omitempty"`
}

var (
	mD = &Mode{K: 'D'}
	mX = &Mode{K: 'X'}
	mU = &Mode{K: 'U'}
)

func (m *Mode) String() string {
	switch m.K {
	case 'D', 'X', 'U':
		return string(m.K)
	case 'B', 'L', 'A':
		return string(m.K) + "(" + m.E.String() + ")"
	case 'T':
		p := make([]string, len(m.T))
		for i, t := range m.T {
			p[i] = t.String()
		}
		return "T(" + strings.Join(p, ",") + ")"
	case 'H':
		p := make([]string, len(m.Hk))
		for i, k := range m.Hk {
			p[i] = k + ":" + m.Hv[i].String()
		}
		return "H(" + strings.Join(p, ",") + ")"
	}
	return "?"
}

func mB(e *Mode) *Mode {
	if e.K == 'U' {
		return mU
	}
	return &Mode{K: 'B', E: e}
}

func mL(e *Mode) *Mode {
	switch e.K {
	case 'U':
		return mU
	case 'D':
		return mD
	}
	return &Mode{K: 'L', E: e}
}

func mA(e *Mode) *Mode {
	switch e.K {
	case 'U':
		return mU
	case 'D':
		return mD
	}
	return &Mode{K: 'A', E: e}
}

func mT(ms []*Mode) *Mode {
	allD := true
	for _, m := range ms {
		if m.K == 'U' {
			return mU
		}
		if m.K != 'D' {
			allD = false
		}
	}
	if allD {
		return mD
	}
	return &Mode{K: 'T', T: ms}
}

func mH(keys []string, ms []*Mode) *Mode {
	// later duplicates win
	idx := map[string]int{}
	var ks []string
	var vs []*Mode
	for i, k := range keys {
		if j, ok := idx[k]; ok {
			vs[j] = ms[i]
			continue
		}
		idx[k] = len(ks)
		ks = append(ks, k)
		vs = append(vs, ms[i])
	}
	allD := true
	for _, m := range vs {
		if m.K == 'U' {
			return mU
		}
		if m.K != 'D' {
			allD = false
		}
	}
	if allD {
		return mD
	}
	return &Mode{K: 'H', Hk: ks, Hv: vs}
}

// join: a mode at least as loose as both.
func join(a, b *Mode) *Mode {
	if a.K == 'U' || b.K == 'U' {
		return mU
	}
	if a.K == 'D' {
		return b
	}
	if b.K == 'D' {
		return a
	}
	if a.K == 'X' || b.K == 'X' {
		return mX
	}
	if a.K != b.K {
		// B vs L: a bag is looser than a list
		if (a.K == 'B' && b.K == 'L') || (a.K == 'L' && b.K == 'B') {
			return mB(join(a.E, b.E))
		}
		if (a.K == 'B' || a.K == 'L') && b.K == 'T' {
			return join(a, &Mode{K: 'L', E: joinAll(b.T)})
		}
		if a.K == 'T' && (b.K == 'B' || b.K == 'L') {
			return join(&Mode{K: 'L', E: joinAll(a.T)}, b)
		}
		if a.K == 'H' && b.K == 'A' {
			return mA(join(joinAll(a.Hv), b.E))
		}
		if a.K == 'A' && b.K == 'H' {
			return mA(join(a.E, joinAll(b.Hv)))
		}
		return mX
	}
	switch a.K {
	case 'B':
		return mB(join(a.E, b.E))
	case 'L':
		e := join(a.E, b.E)
		if e.K == 'U' {
			return mU
		}
		return &Mode{K: 'L', E: e}
	case 'A':
		e := join(a.E, b.E)
		if e.K == 'U' {
			return mU
		}
		return &Mode{K: 'A', E: e}
	case 'T':
		if len(a.T) != len(b.T) {
			return &Mode{K: 'L', E: join(joinAll(a.T), joinAll(b.T))}
		}
		ms := make([]*Mode, len(a.T))
		for i := range ms {
			ms[i] = join(a.T[i], b.T[i])
		}
		return &Mode{K: 'T', T: ms}
	case 'H':
		keys := append([]string(nil), a.Hk...)
		ms := append([]*Mode(nil), a.Hv...)
		for i, k := range b.Hk {
			found := false
			for j, k2 := range keys {
				if k == k2 {
					ms[j] = join(ms[j], b.Hv[i])
					found = true
				}
			}
			if !found {
				keys = append(keys, k)
				ms = append(ms, b.Hv[i])
			}
		}
		return &Mode{K: 'H', Hk: keys, Hv: ms}
	}
	return mX
}

func joinAll(ms []*Mode) *Mode {
	r := mD
	for _, m := range ms {
		r = join(r, m)
	}
	return r
}

// elem: mode of the elements when a value of mode m is iterated as an array.
func elemMode(m *Mode) *Mode {
	switch m.K {
	case 'B', 'L':
		return m.E
	case 'T':
		return joinAll(m.T)
	case 'X':
		return mX
	case 'U':
		return mU
	}
	return mD
}

// vals: mode of the member values when a value of mode m is an object.
func valsMode(m *Mode) *Mode {
	switch m.K {
	case 'H':
		return joinAll(m.Hv)
	case 'A':
		return m.E
	case 'X':
		return mX
	case 'U':
		return mU
	}
	return mD
}

func baggy(m *Mode) bool { return m.K == 'B' || m.K == 'X' }

// collect: mode of the array obtained by mapping the elements of m to r.
func collect(m, r *Mode) *Mode {
	if m.K == 'U' || r.K == 'U' {
		return mU
	}
	if m.K == 'X' {
		return mX
	}
	if m.K == 'B' {
		return mB(r)
	}
	return mL(r)
}

type analysis struct {
	Enum       bool // enumerates object members somewhere
	MultiFault bool // >= 2 fallible children under a map-iterated construct
	MapIter    bool // iterates a Go map somewhere (hash, let, merge, object ==, enumeration)
	AnyU       bool // some sub-expression is order-sensitive downstream of an enumeration
}

type env map[string]*Mode

// mode wraps mode0: a U anywhere poisons the whole expression, because a
// sub-expression whose VALUE is discarded (left of a pipe whose right side is
// a literal, an unused let binding, ...) still decides whether the call fails,
// and for an order-sensitive sub-expression that may depend on the map order.
func (a *analysis) mode(e *Expr, cur *Mode, vars env) *Mode {
	m := a.mode0(e, cur, vars)
	if m.K == 'U' && e != nil {
		a.AnyU = true
	}
	return m
}

func (a *analysis) mode0(e *Expr, cur *Mode, vars env) *Mode {
	if e == nil {
		return cur
	}
	switch e.K {
	case KRaw:
		return mU
	case KCur:
		return cur
	case KRoot, KLit, KStr:
		return mD
	case KVar:
		if m, ok := vars[e.S]; ok {
			return m
		}
		return mD
	case KField:
		switch cur.K {
		case 'H':
			for i, k := range cur.Hk {
				if k == e.S {
					return cur.Hv[i]
				}
			}
			return mD
		case 'A':
			return cur.E
		case 'X':
			return mX
		case 'U':
			return mU
		}
		return mD
	case KSub, KPipe:
		l := a.mode(e.C[0], cur, vars)
		return a.mode(e.C[1], l, vars)
	case KIndex:
		m := a.mode(e.C[0], cur, vars)
		switch m.K {
		case 'L':
			return m.E
		case 'T':
			i := e.N[0]
			if i < 0 {
				i += len(m.T)
			}
			if i >= 0 && i < len(m.T) {
				return join(m.T[i], mD)
			}
			return mD
		case 'B', 'X', 'U':
			return mU
		}
		return mD
	case KSlice:
		m := a.mode(e.C[0], cur, vars)
		switch m.K {
		case 'L':
			return m
		case 'T':
			return mL(joinAll(m.T))
		case 'B', 'X', 'U':
			return mU
		}
		return mD
	case KSProj:
		m := a.mode(e.C[0], cur, vars)
		var em *Mode
		switch m.K {
		case 'L':
			em = m.E
		case 'T':
			em = joinAll(m.T)
		case 'B', 'X', 'U':
			return mU
		default:
			em = mD
		}
		r := em
		if e.C[1] != nil {
			r = a.mode(e.C[1], em, vars)
		}
		// a slice of a STRING followed by a right-hand side is not a projection:
		// the right-hand side is applied to the sliced string and its value is
		// the result itself, so the result is either a list of r or r
		return join(mL(r), r)
	case KProj:
		m := a.mode(e.C[0], cur, vars)
		em := elemMode(m)
		r := em
		if e.C[1] != nil {
			r = a.mode(e.C[1], em, vars)
		}
		return collect(m, r)
	case KOProj:
		a.Enum, a.MapIter = true, true
		m := a.mode(e.C[0], cur, vars)
		if m.K == 'U' {
			return mU
		}
		vm := valsMode(m)
		r := vm
		if e.C[1] != nil {
			r = a.mode(e.C[1], vm, vars)
		}
		if m.K == 'X' {
			if r.K == 'U' {
				return mU
			}
			return mX
		}
		return mB(r)
	case KFlat:
		m := a.mode(e.C[0], cur, vars)
		if m.K == 'U' {
			return mU
		}
		var fe *Mode
		bag := baggy(m)
		if m.K == 'X' {
			fe = mX
		} else {
			var parts []*Mode
			switch m.K {
			case 'B', 'L':
				parts = []*Mode{m.E}
			case 'T':
				parts = m.T
			default:
				parts = []*Mode{mD}
			}
			fe = mD
			for _, p := range parts {
				switch p.K {
				case 'B':
					bag = true
					fe = join(fe, p.E)
				case 'L':
					fe = join(fe, p.E)
				case 'T':
					fe = join(fe, joinAll(p.T))
				case 'X':
					bag = true
					fe = mX
				default:
					fe = join(fe, p)
				}
			}
		}
		r := fe
		if e.C[1] != nil {
			r = a.mode(e.C[1], fe, vars)
		}
		if r.K == 'U' {
			return mU
		}
		if fe.K == 'X' {
			return mX
		}
		if bag {
			return mB(r)
		}
		return mL(r)
	case KFilter:
		m := a.mode(e.C[0], cur, vars)
		em := elemMode(m)
		pm := a.mode(e.C[1], em, vars)
		if pm.K == 'U' {
			return mU
		}
		r := em
		if e.C[2] != nil {
			r = a.mode(e.C[2], em, vars)
		}
		return collect(m, r)
	case KList:
		ms := make([]*Mode, len(e.C))
		for i, c := range e.C {
			ms[i] = a.mode(c, cur, vars)
		}
		return mT(ms)
	case KHash:
		a.MapIter = true
		ms := make([]*Mode, len(e.C))
		nf := 0
		for i, c := range e.C {
			ms[i] = a.mode(c, cur, vars)
			if fallible(c) {
				nf++
			}
		}
		if nf >= 2 {
			a.MultiFault = true
		}
		return mH(e.Keys, ms)
	case KBin:
		l := a.mode(e.C[0], cur, vars)
		r := a.mode(e.C[1], cur, vars)
		switch e.S {
		case "||", "&&":
			return join(l, r)
		case "==", "!=":
			a.MapIter = true
		}
		if l.K == 'D' && r.K == 'D' {
			return mD
		}
		return mU
	case KNot:
		if a.mode(e.C[0], cur, vars).K == 'U' {
			return mU
		}
		return mD
	case KNeg:
		if a.mode(e.C[0], cur, vars).K == 'D' {
			return mD
		}
		return mU
	case KLet:
		n := len(e.C) - 1
		nv := env{}
		for k, v := range vars {
			nv[k] = v
		}
		a.MapIter = true
		nf := 0
		anyU := false
		for i := 0; i < n; i++ {
			m := a.mode(e.C[i], cur, vars)
			if m.K == 'U' {
				anyU = true
			}
			nv[e.Keys[i]] = m
			if fallible(e.C[i]) {
				nf++
			}
		}
		if nf >= 2 {
			a.MultiFault = true
		}
		r := a.mode(e.C[n], cur, nv)
		if anyU {
			// an unused U binding is harmless, a used one already made r U;
			// stay conservative
			return mU
		}
		return r
	case KRef:
		return mU
	case KFunc:
		return a.funcMode(e, cur, vars)
	}
	return mU
}

func (a *analysis) funcMode(e *Expr, cur *Mode, vars env) *Mode {
	arg := func(i int) *Mode {
		if i >= len(e.C) {
			return mD
		}
		c := e.C[i]
		if c.K == KRef {
			return mU
		}
		return a.mode(c, cur, vars)
	}
	ref := func(i int, elem *Mode) *Mode {
		if i >= len(e.C) || e.C[i].K != KRef {
			return mU
		}
		return a.mode(e.C[i].C[0], elem, vars)
	}
	allD := func() *Mode {
		for i := range e.C {
			if arg(i).K != 'D' {
				return mU
			}
		}
		return mD
	}
	switch e.S {
	case "length", "type":
		if arg(0).K == 'U' {
			return mU
		}
		return mD
	case "keys":
		a.Enum, a.MapIter = true, true
		if arg(0).K == 'U' {
			return mU
		}
		return mB(mD)
	case "values":
		a.Enum, a.MapIter = true, true
		m := arg(0)
		if m.K == 'U' {
			return mU
		}
		if m.K == 'X' {
			return mX
		}
		return mB(valsMode(m))
	case "items":
		a.Enum, a.MapIter = true, true
		m := arg(0)
		if m.K == 'U' {
			return mU
		}
		if m.K == 'X' {
			return mX
		}
		return mB(mT([]*Mode{mD, valsMode(m)}))
	case "sort":
		m := arg(0)
		switch m.K {
		case 'B':
			if m.E.K == 'D' {
				return mD
			}
			return m
		case 'T':
			return mL(joinAll(m.T))
		case 'H', 'A':
			return mD
		}
		return m // D, L, X, U
	case "sum", "avg", "min", "max":
		if arg(0).K == 'U' {
			return mU
		}
		return mD
	case "contains":
		h, n := arg(0), arg(1)
		if n.K != 'D' {
			return mU
		}
		if h.K == 'D' || (h.K == 'B' && h.E.K == 'D') {
			return mD
		}
		return mU
	case "reverse":
		m := arg(0)
		switch m.K {
		case 'T':
			r := make([]*Mode, len(m.T))
			for i := range r {
				r[i] = m.T[len(m.T)-1-i]
			}
			return &Mode{K: 'T', T: r}
		case 'H', 'A':
			return mD
		}
		return m
	case "to_array":
		m := arg(0)
		switch m.K {
		case 'H', 'A':
			return &Mode{K: 'T', T: []*Mode{m}}
		}
		return m
	case "not_null":
		r := mD
		for i := range e.C {
			r = join(r, arg(i))
		}
		return r
	case "merge":
		a.MapIter = true
		kind := byte('D')
		for i := range e.C {
			m := arg(i)
			switch m.K {
			case 'U':
				return mU
			case 'X', 'B', 'L', 'T':
				kind = 'X'
			case 'A':
				if kind != 'X' {
					kind = 'A'
				}
			case 'H':
				if kind == 'D' {
					kind = 'H'
				}
			}
		}
		switch kind {
		case 'D':
			return mD
		case 'X':
			return mX
		case 'A':
			r := mD
			for i := range e.C {
				r = join(r, valsMode(arg(i)))
			}
			return mA(r)
		}
		var ks []string
		var vs []*Mode
		for i := range e.C {
			m := arg(i)
			if m.K == 'H' {
				ks = append(ks, m.Hk...)
				vs = append(vs, m.Hv...)
			}
		}
		return mH(ks, vs)
	case "from_items":
		if len(e.C) == 1 && e.C[0].K == KFunc && e.C[0].S == "items" && len(e.C[0].C) == 1 {
			a.Enum, a.MapIter = true, true
			m := a.mode(e.C[0].C[0], cur, vars)
			if m.K == 'U' {
				return mU
			}
			if m.K == 'X' {
				return mX
			}
			return mA(valsMode(m))
		}
		return allD()
	case "group_by":
		m := arg(0)
		if m.K == 'U' {
			return mU
		}
		em := elemMode(m)
		if ref(1, em).K != 'D' {
			return mU
		}
		switch m.K {
		case 'D', 'H', 'A':
			return mD
		case 'X':
			return mX
		case 'B':
			return mA(m)
		case 'L':
			return mA(m)
		case 'T':
			return mA(&Mode{K: 'L', E: em})
		}
		return mU
	case "sort_by":
		m := arg(0)
		if m.K == 'U' || m.K == 'B' || m.K == 'X' {
			return mU
		}
		em := elemMode(m)
		if ref(1, em).K != 'D' {
			return mU
		}
		switch m.K {
		case 'L':
			return m
		case 'T':
			return mL(em)
		}
		return mD
	case "max_by", "min_by":
		m := arg(0)
		if m.K == 'U' || m.K == 'B' || m.K == 'X' {
			return mU
		}
		em := elemMode(m)
		if ref(1, em).K != 'D' {
			return mU
		}
		return em
	case "map":
		m := arg(1)
		if m.K == 'U' {
			return mU
		}
		em := elemMode(m)
		r := ref(0, em)
		if m.K == 'H' || m.K == 'A' {
			if r.K == 'U' {
				return mU
			}
			return mD
		}
		return collect(m, r)
	case "abs", "ceil", "floor", "to_number", "to_string", "upper", "lower", "trim", "trim_left", "trim_right",
		"pad_left", "pad_right", "replace", "split", "join", "starts_with", "ends_with", "find_first", "find_last", "zip":
		return allD()
	}
	return mU
}

// fallible: may evaluating e report a run-time error? (conservative: true
// unless e is built only from constructs that cannot fail)
func fallible(e *Expr) bool {
	if e == nil {
		return false
	}
	switch e.K {
	case KVar, KRaw:
		return true
	case KFunc:
		switch e.S {
		case "type", "not_null", "to_array", "to_number":
		default:
			return true
		}
	case KBin:
		switch e.S {
		case "+", "-", "*", "/", "%", "//", "×", "÷", "−":
			return true
		}
	}
	for _, c := range e.C {
		if fallible(c) {
			return true
		}
	}
	return false
}

// Analyze computes the comparison mode and flags of a whole expression.
func Analyze(e *Expr) (*Mode, analysis) {
	var a analysis
	m := a.mode(e, mD, env{})
	if a.AnyU {
		m = mU
	}
	return m, a
}

// ---------------------------------------------------------------------------
// Canonical form of a value under a mode. exact: numbers keep their Go type
// and text (strict class); otherwise numbers are compared by value.
// ---------------------------------------------------------------------------

func Canon(v any, m *Mode, exact bool) string {
	var b strings.Builder
	canon(&b, v, m, exact)
	return b.String()
}

func canonScalar(b *strings.Builder, v any, exact bool) bool {
	switch x := v.(type) {
	case nil:
		b.WriteString("null")
		return true
	case bool:
		if x {
			b.WriteString("true")
		} else {
			b.WriteString("false")
		}
		return true
	case string:
		b.WriteString(jsonString(x))
		return true
	case []any, map[string]any:
		return false
	}
	if exact {
		if s, ok := encNumber(v); ok {
			b.WriteString("{" + s + "}")
			return true
		}
	} else if s, ok := numCanon(v); ok {
		b.WriteString(s)
		return true
	}
	b.WriteString(Enc(v))
	return true
}

func canon(b *strings.Builder, v any, m *Mode, exact bool) {
	if canonScalar(b, v, exact) {
		return
	}
	switch x := v.(type) {
	case []any:
		switch m.K {
		case 'B', 'X':
			em := mX
			if m.K == 'B' {
				em = m.E
			}
			parts := make([]string, len(x))
			for i, el := range x {
				parts[i] = Canon(el, em, exact)
			}
			sort.Strings(parts)
			b.WriteString("B[")
			b.WriteString(strings.Join(parts, ","))
			b.WriteString("]")
			return
		case 'L':
			b.WriteString("[")
			for i, el := range x {
				if i > 0 {
					b.WriteByte(',')
				}
				canon(b, el, m.E, exact)
			}
			b.WriteString("]")
			return
		case 'T':
			if len(m.T) == len(x) {
				b.WriteString("[")
				for i, el := range x {
					if i > 0 {
						b.WriteByte(',')
					}
					canon(b, el, m.T[i], exact)
				}
				b.WriteString("]")
				return
			}
			jm := joinAll(m.T)
			b.WriteString("[")
			for i, el := range x {
				if i > 0 {
					b.WriteByte(',')
				}
				canon(b, el, jm, exact)
			}
			b.WriteString("]")
			return
		}
		b.WriteString("[")
		for i, el := range x {
			if i > 0 {
				b.WriteByte(',')
			}
			canon(b, el, mD, exact)
		}
		b.WriteString("]")
	case map[string]any:
		keys := make([]string, 0, len(x))
		for k := range x {
			keys = append(keys, k)
		}
		sort.Strings(keys)
		b.WriteString("{")
		for i, k := range keys {
			if i > 0 {
				b.WriteByte(',')
			}
			b.WriteString(jsonString(k))
			b.WriteByte(':')
			vm := mD
			switch m.K {
			case 'H':
				for j, hk := range m.Hk {
					if hk == k {
						vm = m.Hv[j]
					}
				}
			case 'A':
				vm = m.E
			case 'X':
				vm = mX
			}
			canon(b, x[k], vm, exact)
		}
		b.WriteString("}")
	}
}
