package main

import (
	"encoding/json"
	"sort"
	"strings"
	"time"

	"github.com/woodsbury/jmespath/internal/simrt"
)

// Minimisation of a failing workload. test(w) must report whether w still
// shows the same violation class; it is run in a fresh process per candidate
// (see orch.go), so a race report, a fatal error or polluted global state
// behave exactly as they would for a user.

type shrinker struct {
	test     func(*Workload) bool
	tests    int
	limit    int
	deadline time.Time
}

func (s *shrinker) try(w *Workload) bool {
	if s.tests >= s.limit || time.Now().After(s.deadline) {
		s.tests = s.limit
		return false
	}
	s.tests++
	return s.test(w)
}

func dropTask(w *Workload, t int) *Workload {
	c := w.clone()
	c.Tasks = append(c.Tasks[:t:t], c.Tasks[t+1:]...)
	var sw []simrt.Switch
	for _, x := range c.Sched.Switches {
		if int(x.From) == t || int(x.To) == t {
			continue
		}
		if int(x.From) > t {
			x.From--
		}
		if int(x.To) > t {
			x.To--
		}
		sw = append(sw, x)
	}
	c.Sched.Switches = sw
	if c.Sched.First == t {
		c.Sched.First = 0
	} else if c.Sched.First > t {
		c.Sched.First--
	}
	return c
}

func subtrees(e *Expr, out *[]*Expr) {
	if e == nil {
		return
	}
	for _, c := range e.C {
		if c != nil && c.K != KRef {
			*out = append(*out, c)
		}
		if c != nil {
			subtrees(c, out)
		}
	}
}

// replaceNth returns a copy of e whose n-th node (pre-order, counting from 0
// at the root's first child) is replaced by r.
func replaceNode(e *Expr, target *Expr, r *Expr) *Expr {
	if e == nil {
		return nil
	}
	if e == target {
		return r.clone()
	}
	c := *e
	c.C = make([]*Expr, len(e.C))
	for i, ch := range e.C {
		c.C[i] = replaceNode(ch, target, r)
	}
	return &c
}

func usedIndexes(w *Workload) (docs, exprs map[int]bool) {
	docs, exprs = map[int]bool{}, map[int]bool{}
	for _, t := range w.Tasks {
		for _, op := range t {
			switch op.K {
			case "feed", "churn":
			case "mutate":
				docs[op.D] = true
			case "compile", "mustcompile":
				exprs[op.E] = true
				if w.Prop == "C07" {
					docs[op.D] = true
				}
			default:
				docs[op.D] = true
				exprs[op.E] = true
			}
		}
	}
	return
}

// shrinkDoc tries to delete members/elements of the typed document encoding.
func (s *shrinker) shrinkDoc(w *Workload, di int) *Workload {
	var tree any
	dec := json.NewDecoder(strings.NewReader(w.Docs[di]))
	dec.UseNumber()
	if err := dec.Decode(&tree); err != nil {
		return w
	}
	changed := true
	for changed && s.tests < s.limit {
		changed = false
		for _, p := range deletionPaths(tree, nil, 0) {
			cand, ok := deleteAt(tree, p)
			if !ok {
				continue
			}
			b, _ := json.Marshal(cand)
			c := w.clone()
			c.Docs[di] = string(b)
			if _, err := Dec(c.Docs[di]); err != nil {
				continue
			}
			if s.try(c) {
				w = c
				tree = cand
				changed = true
				break
			}
		}
	}
	return w
}

type pathStep struct {
	key string // member of a wrapper object ("a","o","v"), or "" for an array index
	idx int
	n   int
}

// deletionPaths lists places where an element (array) or a key/value pair
// (object encoding) can be removed, outermost first.
func deletionPaths(v any, prefix []pathStep, depth int) [][]pathStep {
	var out [][]pathStep
	if depth > 10 {
		return out
	}
	switch x := v.(type) {
	case []any: // plain array of values
		for sz := len(x) / 2; sz >= 2; sz /= 2 {
			for i := 0; i+sz <= len(x); i += sz {
				out = append(out, append(append([]pathStep(nil), prefix...), pathStep{idx: i, n: sz}))
			}
		}
		if len(x) <= 64 {
			for i := range x {
				out = append(out, append(append([]pathStep(nil), prefix...), pathStep{idx: i, n: 1}))
			}
		}
		for i, el := range x {
			out = append(out, deletionPaths(el, append(append([]pathStep(nil), prefix...), pathStep{idx: i}), depth+1)...)
		}
	case map[string]any:
		if a, ok := x["a"].([]any); ok {
			out = append(out, deletionPaths(a, append(append([]pathStep(nil), prefix...), pathStep{key: "a"}), depth+1)...)
		}
		if o, ok := x["o"].([]any); ok {
			base := append(append([]pathStep(nil), prefix...), pathStep{key: "o"})
			for sz := (len(o) / 4) * 2; sz >= 4; sz = (sz / 4) * 2 {
				for i := 0; i+sz <= len(o); i += sz {
					out = append(out, append(append([]pathStep(nil), base...), pathStep{idx: i, n: sz}))
				}
			}
			for i := 0; i+1 < len(o); i += 2 {
				out = append(out, append(append([]pathStep(nil), base...), pathStep{idx: i, n: 2}))
			}
			for i := 1; i < len(o); i += 2 {
				out = append(out, deletionPaths(o[i], append(append([]pathStep(nil), base...), pathStep{idx: i}), depth+1)...)
			}
		}
		if v2, ok := x["v"]; ok {
			out = append(out, deletionPaths(v2, append(append([]pathStep(nil), prefix...), pathStep{key: "v"}), depth+1)...)
		}
	}
	sort.SliceStable(out, func(a, b int) bool {
		if len(out[a]) != len(out[b]) {
			return len(out[a]) < len(out[b])
		}
		return out[a][len(out[a])-1].n > out[b][len(out[b])-1].n
	})
	return out
}

func deleteAt(v any, path []pathStep) (any, bool) {
	if len(path) == 0 {
		return v, false
	}
	st := path[0]
	switch x := v.(type) {
	case []any:
		if st.key != "" || st.idx >= len(x) {
			return v, false
		}
		if len(path) == 1 {
			if st.n == 0 || st.idx+st.n > len(x) {
				return v, false
			}
			out := append(append([]any(nil), x[:st.idx]...), x[st.idx+st.n:]...)
			return out, true
		}
		sub, ok := deleteAt(x[st.idx], path[1:])
		if !ok {
			return v, false
		}
		out := append([]any(nil), x...)
		out[st.idx] = sub
		return out, true
	case map[string]any:
		if st.key == "" {
			return v, false
		}
		child, ok := x[st.key]
		if !ok {
			return v, false
		}
		sub, ok := deleteAt(child, path[1:])
		if !ok {
			return v, false
		}
		out := map[string]any{}
		for k, vv := range x {
			out[k] = vv
		}
		out[st.key] = sub
		return out, true
	}
	return v, false
}

// Shrink greedily minimises w while test keeps succeeding.
func Shrink(w *Workload, test func(*Workload) bool, limit int, budget time.Duration) (*Workload, int) {
	s := &shrinker{test: test, limit: limit, deadline: time.Now().Add(budget)}
	progress := true
	for progress && s.tests < s.limit {
		progress = false
		// 1. drop whole tasks
		for t := len(w.Tasks) - 1; t >= 0 && len(w.Tasks) > 1; t-- {
			if c := dropTask(w, t); s.try(c) {
				w, progress = c, true
			}
		}
		// 2. drop operations
		for t := range w.Tasks {
			for k := len(w.Tasks[t]) - 1; k >= 0; k-- {
				if len(w.Tasks[t]) <= 1 && len(w.Tasks) > 1 {
					break
				}
				if len(w.Tasks[t]) == 0 {
					break
				}
				c := w.clone()
				c.Tasks[t] = append(c.Tasks[t][:k:k], c.Tasks[t][k+1:]...)
				if s.try(c) {
					w, progress = c, true
				}
			}
		}
		// 3. schedule: sequential, then drop switches (halves, then singles)
		if len(w.Sched.Switches) > 0 || len(w.Sched.GCSteps) > 0 {
			c := w.clone()
			c.Sched.Switches, c.Sched.GCSteps = nil, nil
			if s.try(c) {
				w, progress = c, true
			}
		}
		if len(w.Sched.GCSteps) > 0 {
			c := w.clone()
			c.Sched.GCSteps = nil
			if s.try(c) {
				w, progress = c, true
			}
		}
		for chunk := len(w.Sched.Switches) / 2; chunk >= 1; chunk /= 2 {
			for i := 0; i+chunk <= len(w.Sched.Switches); {
				c := w.clone()
				c.Sched.Switches = append(c.Sched.Switches[:i:i], c.Sched.Switches[i+chunk:]...)
				if s.try(c) {
					w, progress = c, true
				} else {
					i += chunk
				}
			}
		}
		// 4. map policies: sorted everywhere
		{
			c := w.clone()
			ch := false
			for t := range c.Tasks {
				for k := range c.Tasks[t] {
					if c.Tasks[t][k].Pol != (simrt.Policy{}) {
						c.Tasks[t][k].Pol = simrt.Policy{}
						ch = true
					}
				}
			}
			if ch && s.try(c) {
				w, progress = c, true
			}
		}
		if len(w.Policies) > 2 {
			for i := len(w.Policies) - 1; i >= 1 && len(w.Policies) > 2; i-- {
				c := w.clone()
				c.Policies = append(c.Policies[:i:i], c.Policies[i+1:]...)
				if s.try(c) {
					w, progress = c, true
				}
			}
		}
		// 5. expressions: replace by a sub-tree, or a sub-tree by a literal
		_, usedE := usedIndexes(w)
		if w.Prop == "C15" {
			usedE = map[int]bool{0: true}
		}
		for ei := range w.Exprs {
			if !usedE[ei] && w.Prop != "C06" {
				continue
			}
			for again := true; again && s.tests < s.limit; {
				again = false
				tree := w.Exprs[ei].Tree
				if tree == nil {
					break
				}
				var subs []*Expr
				subtrees(tree, &subs)
				sort.SliceStable(subs, func(a, b int) bool { return subs[a].size() < subs[b].size() })
				for _, sub := range subs {
					c := w.clone()
					nt := sub.clone()
					c.Exprs[ei] = ExprSpec{Text: nt.Text(), Tree: nt}
					if s.try(c) {
						w, progress, again = c, true, true
						break
					}
				}
				if again {
					continue
				}
				// replace inner sub-trees by `null` / @
				for _, sub := range subs {
					if sub.K == KLit || sub.K == KCur || sub.size() < 2 {
						continue
					}
					nt := replaceNode(tree, sub, lit("null"))
					c := w.clone()
					c.Exprs[ei] = ExprSpec{Text: nt.Text(), Tree: nt}
					if s.try(c) {
						w, progress, again = c, true, true
						break
					}
				}
			}
		}
		// 6. documents
		usedD, _ := usedIndexes(w)
		if w.Prop == "C15" {
			usedD = map[int]bool{0: true}
		}
		for di := range w.Docs {
			if !usedD[di] {
				continue
			}
			before := w.Docs[di]
			w = s.shrinkDoc(w, di)
			if w.Docs[di] != before {
				progress = true
			}
		}
	}
	return w, s.tests
}
