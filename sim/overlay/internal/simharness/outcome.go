package main

import (
	"errors"
	"fmt"

	jmespath "github.com/woodsbury/jmespath"
)

// Outcome of one API call: value | error(category, message) | panic(message).
type Outcome struct {
	Kind byte   // 'v' value, 'e' error, 'p' panic
	Cat  string // error category (which exported sentinel it Is)
	Msg  string
	Val  any
	Err  error // the error object itself: it must keep saying the same thing later
}

var sentinels = []struct {
	name string
	err  error
}{
	{"EvaluationFailed", jmespath.ErrEvaluationFailed},
	{"InvalidArity", jmespath.ErrInvalidArity},
	{"InvalidType", jmespath.ErrInvalidType},
	{"InvalidValue", jmespath.ErrInvalidValue},
	{"NotANumber", jmespath.ErrNotANumber},
	{"Syntax", jmespath.ErrSyntax},
	{"UndefinedVariable", jmespath.ErrUndefinedVariable},
	{"UnknownFunction", jmespath.ErrUnknownFunction},
}

func categorize(err error) string {
	cat := ""
	for _, s := range sentinels {
		if errors.Is(err, s.err) {
			if cat != "" {
				cat += "+"
			}
			cat += s.name
		}
	}
	if cat == "" {
		cat = "none"
	}
	return cat
}

func errOutcome(err error) Outcome {
	return Outcome{Kind: 'e', Cat: categorize(err), Msg: err.Error(), Err: err}
}

// KeyNow re-reads the value or error object held by the caller.
func (o Outcome) KeyNow() string {
	if o.Kind == 'e' && o.Err != nil {
		return "e:" + categorize(o.Err) + ":" + o.Err.Error()
	}
	return o.Key()
}

// Key is the exact serialisation used for strict comparison and for the
// oracle process.
func (o Outcome) Key() string {
	switch o.Kind {
	case 'v':
		return "v:" + Enc(o.Val)
	case 'e':
		return "e:" + o.Cat + ":" + o.Msg
	case 'p':
		return "p:" + o.Msg
	}
	return "?"
}

func (o Outcome) Status() string {
	switch o.Kind {
	case 'v':
		return "ok"
	case 'e':
		return "error"
	}
	return "panic"
}

func panicOutcome(r any) Outcome { return Outcome{Kind: 'p', Msg: fmt.Sprint(r)} }

func callSearch(text string, doc any) (o Outcome) {
	defer func() {
		if r := recover(); r != nil {
			o = panicOutcome(r)
		}
	}()
	v, err := jmespath.Search(text, doc)
	if err != nil {
		return errOutcome(err)
	}
	return Outcome{Kind: 'v', Val: v}
}

func callCompile(text string) (e *jmespath.Expression, o Outcome) {
	defer func() {
		if r := recover(); r != nil {
			e, o = nil, panicOutcome(r)
		}
	}()
	e, err := jmespath.Compile(text)
	if err != nil {
		return nil, errOutcome(err)
	}
	return e, Outcome{Kind: 'v', Val: "compiled"}
}

func callMustCompile(text string) (e *jmespath.Expression, o Outcome) {
	defer func() {
		if r := recover(); r != nil {
			e, o = nil, panicOutcome(r)
		}
	}()
	e = jmespath.MustCompile(text)
	return e, Outcome{Kind: 'v', Val: "compiled"}
}

func callExprSearch(e *jmespath.Expression, doc any) (o Outcome) {
	defer func() {
		if r := recover(); r != nil {
			o = panicOutcome(r)
		}
	}()
	v, err := e.Search(doc)
	if err != nil {
		return errOutcome(err)
	}
	return Outcome{Kind: 'v', Val: v}
}

// callFresh is the reference: fresh Compile + Expression.Search, or a
// one-shot Search, of the same text on the given (pristine) document.
func callFresh(text string, doc any, oneShot bool) Outcome {
	if oneShot {
		return callSearch(text, doc)
	}
	e, o := callCompile(text)
	if e == nil {
		return o
	}
	return callExprSearch(e, doc)
}
