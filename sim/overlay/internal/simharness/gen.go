package main

import (
	"encoding/json"
	"strconv"
	"strings"
)

// ---------------------------------------------------------------------------
// PRNG (splitmix64). One integer decides everything: the stream is derived
// from VERIF_SEED, the property and the run index.
// ---------------------------------------------------------------------------

type Rng struct{ s uint64 }

func NewRng(parts ...uint64) *Rng {
	h := uint64(0x243f6a8885a308d3)
	for _, p := range parts {
		h = hmix(h, p)
	}
	return &Rng{s: h}
}

func (r *Rng) U64() uint64 { return splitmix64(&r.s) }
func (r *Rng) Intn(n int) int {
	if n <= 0 {
		return 0
	}
	return int(r.U64() % uint64(n))
}
func (r *Rng) P(num, den int) bool  { return r.Intn(den) < num }
func (r *Rng) Fork(tag uint64) *Rng { return &Rng{s: hmix(r.U64(), tag)} }
func pick[T any](r *Rng, xs []T) T  { return xs[r.Intn(len(xs))] }

// ---------------------------------------------------------------------------
// Document schema
// ---------------------------------------------------------------------------

type Ty struct {
	K byte // 'n' 's' 'b' '0' 'a' 'o' 'r' 'p' 'd' '*'
	E *Ty
}

var (
	tN   = &Ty{K: 'n'}
	tS   = &Ty{K: 's'}
	tB   = &Ty{K: 'b'}
	tNul = &Ty{K: '0'}
	tAny = &Ty{K: '*'}
	tRec = &Ty{K: 'r'}
	tPt  = &Ty{K: 'p'}
	tDoc = &Ty{K: 'd'}
)

func tA(e *Ty) *Ty { return &Ty{K: 'a', E: e} }
func tO(e *Ty) *Ty { return &Ty{K: 'o', E: e} }

func (t *Ty) eq(o *Ty) bool {
	if t.K != o.K {
		return false
	}
	if t.E == nil || o.E == nil {
		return t.E == o.E
	}
	return t.E.eq(o.E)
}

type fld struct {
	name string
	ty   *Ty
}

var docFields = []fld{
	{"nums", tA(tN)}, {"strs", tA(tS)}, {"recs", tA(tRec)}, {"omap", tO(tN)}, {"smap", tO(tS)}, {"rmap", tO(tRec)},
	{"n", tN}, {"m", tN}, {"s", tS}, {"flag", tB}, {"tag", tS}, {"nest", tA(tA(tN))}, {"mixed", tA(tAny)}, {"nul", tNul},
}
var recFields = []fld{
	{"id", tN}, {"name", tS}, {"grp", tS}, {"vals", tA(tN)}, {"attrs", tO(tS)}, {"on", tB}, {"pt", tPt},
}
var ptFields = []fld{{"x", tN}, {"y", tN}}
var mapKeys = []string{"a", "b", "t\tb", "c", "q\"t", "d", "k 1", "é", "e", "f", "zz", "A", "k2"}

func fieldsOf(t *Ty) []fld {
	switch t.K {
	case 'd':
		return docFields
	case 'r':
		return recFields
	case 'p':
		return ptFields
	}
	return nil
}

// ---------------------------------------------------------------------------
// Document generator: writes the typed encoding (see value.go) directly.
// ---------------------------------------------------------------------------

type DocGen struct {
	big        bool // "big data" document: thousands of elements in nums, hundreds in recs
	medium     bool // with big: hundreds instead of thousands of elements
	latePoison bool // one wrong-typed element near the end of each long array (a call aborted after a lot of progress)
	r          *Rng
	tag        string
	poison     int // probability (per 100) that a field has a wrong type (aborted calls, F3)
	spare      int // probability (per 100) that an array has spare capacity (F5)
	nextDef    int
	shared     []string // encodings of shareable rec sub-trees (def ids)
	arrDefs    []arrDef // arrays that later windows may alias
}

type arrDef struct{ id, n int }

var strPool = []string{"alpha", "beta", "gamma", "delta", "héllo", "日本語", "a b", "", "x", "Zed", "a,b", "10", "2"}
var grpPool = []string{"g1", "g2", "g3"}

func jnum(kind, text string) string {
	return `{"n":` + jsonString(kind+":"+text) + `}`
}

func (g *DocGen) num() string {
	v := g.r.Intn(41) - 10 // -10..30
	frac := 0
	if g.r.P(1, 5) {
		frac = g.r.Intn(4) // quarters: exact in binary and decimal
	}
	switch g.r.Intn(12) {
	case 0, 1, 2, 3, 4:
		f := float64(v) + float64(frac)*0.25
		return jnum("f64", strconv.FormatFloat(f, 'g', -1, 64))
	case 5, 6, 7:
		s := strconv.Itoa(v)
		if frac > 0 {
			s = strconv.FormatFloat(float64(v)+float64(frac)*0.25, 'f', -1, 64)
		} else if g.r.P(1, 6) {
			s += ".0"
		}
		if m := ((v%9)+9)%9; m == 4 || m == 5 && frac > 0 {
			// the same small, exact value written with 17-22 characters (decided
			// by the value, not by a draw): conversions of long number texts may
			// take another path than those of short ones (memo tables, slow paths)
			if !strings.Contains(s, ".") {
				s += "."
			}
			for len(s) < 17+((v%5)+5)%5 {
				s += "0"
			}
		}
		return jnum("jn", s)
	case 8:
		return jnum("int", strconv.Itoa(v))
	case 9:
		return jnum("i64", strconv.Itoa(v))
	case 10:
		if v < 0 {
			v = -v
		}
		return jnum("u8", strconv.Itoa(v))
	default:
		f := float64(v) + float64(frac)*0.25
		return jnum("f32", strconv.FormatFloat(f, 'g', -1, 32))
	}
}

func (g *DocGen) str() string { return jsonString(pick(g.r, strPool)) }

func (g *DocGen) wrong() string {
	switch g.r.Intn(6) {
	case 0:
		return "null"
	case 1:
		return `"oops"`
	case 2:
		return "true"
	case 3:
		return "[]"
	case 4:
		return `{"o":[]}`
	}
	return g.num()
}

func (g *DocGen) arr(n int, el func(i int) string) string {
	if n == 0 && g.r.P(1, 6) {
		return `{"nil":"a"}` // a nil slice
	}
	if len(g.arrDefs) > 0 && g.r.P(1, 12) {
		// a window onto an array that already occurs in the document
		d := pick(g.r, g.arrDefs)
		lo := g.r.Intn(d.n + 1)
		hi := lo + g.r.Intn(d.n-lo+1)
		return `{"win":` + strconv.Itoa(d.id) + `,"lo":` + strconv.Itoa(lo) + `,"hi":` + strconv.Itoa(hi) + `}`
	}
	parts := make([]string, n)
	for i := range parts {
		parts[i] = el(i)
	}
	s := "[" + strings.Join(parts, ",") + "]"
	if g.r.Intn(100) < g.spare {
		s = `{"a":` + s + `,"cap":` + strconv.Itoa(1+g.r.Intn(4)) + `}`
	}
	if n >= 2 && !strings.Contains(s, `"def"`) && !strings.Contains(s, `"ref"`) && g.r.P(1, 6) {
		g.nextDef++
		g.arrDefs = append(g.arrDefs, arrDef{g.nextDef, n})
		return `{"def":` + strconv.Itoa(g.nextDef) + `,"v":` + s + `}`
	}
	return s
}

func (g *DocGen) obj(keys []string, val func(k string) string) string {
	if len(keys) == 0 && g.r.P(1, 6) {
		return `{"nil":"o"}` // a nil map
	}
	parts := make([]string, 0, 2*len(keys))
	for _, k := range keys {
		parts = append(parts, jsonString(k), val(k))
	}
	return `{"o":[` + strings.Join(parts, ",") + `],"ord":` + strconv.FormatUint(g.r.U64()>>1, 10) + `}`
}

func (g *DocGen) keys(max int) []string {
	n := g.r.Intn(max + 1)
	perm := append([]string(nil), mapKeys...)
	for i := len(perm) - 1; i > 0; i-- {
		j := g.r.Intn(i + 1)
		perm[i], perm[j] = perm[j], perm[i]
	}
	return perm[:n]
}

func (g *DocGen) val(t *Ty, depth int) string {
	if g.r.Intn(100) < g.poison {
		return g.wrong()
	}
	switch t.K {
	case 'n':
		return g.num()
	case 's':
		return g.str()
	case 'b':
		if g.r.P(1, 2) {
			return "true"
		}
		return "false"
	case '0':
		return "null"
	case '*':
		switch g.r.Intn(7) {
		case 0:
			return g.num()
		case 1:
			return g.str()
		case 2:
			return "null"
		case 3:
			return "true"
		case 4:
			return g.arr(g.r.Intn(3), func(int) string { return g.num() })
		case 5:
			return g.obj(g.keys(2), func(string) string { return g.num() })
		}
		return g.num()
	case 'a':
		n := g.r.Intn(6)
		if t.E.K == 'r' {
			n = g.r.Intn(5)
		}
		if g.big && depth <= 1 {
			switch t.E.K {
			case 'n':
				n = 4096 + g.r.Intn(2500)
			case 'r':
				n = 260 + g.r.Intn(400)
			case 's':
				n = 70 + g.r.Intn(300)
			}
			if g.medium {
				switch t.E.K {
				case 'n':
					n = 64 + g.r.Intn(240)
				case 'r':
					n = 64 + g.r.Intn(70)
				case 's':
					n = 64 + g.r.Intn(40)
				}
			}
		}
		if depth <= 1 && g.r.P(1, 12) {
			n = 13 + g.r.Intn(20) // long arrays with many tied keys
		}
		if depth <= 1 && t.E.K == 'n' && g.r.P(1, 60) {
			n = 65 + g.r.Intn(240) // beyond typical size thresholds
		}
		if depth <= 1 && t.E.K == 'r' && g.r.P(1, 80) {
			n = 64 + g.r.Intn(40)
		}
		// (arrays of thousands of elements only occur in the "big data" samples,
		// whose expressions are linear: a generated expression may well be
		// quadratic, and cost is not what is being checked)
		if t.E.K == 'n' && !g.big && n >= 2 && g.r.P(1, 6) {
			// already in ascending order (fast paths that skip work or copies
			// when there is nothing to do)
			start, step := g.r.Intn(10)-3, g.r.Intn(3)
			return g.arr(n, func(i int) string {
				v := start + i*step
				if i == n-1 && step == 0 {
					v++
				}
				return jnum(pick(g.r, []string{"f64", "jn", "int"}), strconv.Itoa(v))
			})
		}
		if t.E.K == 's' && !g.big && n >= 2 && g.r.P(1, 6) {
			sorted := []string{"", "10", "2", "Zed", "a b", "alpha", "beta", "delta", "gamma", "héllo", "x", "日本語"}
			at := g.r.Intn(len(sorted))
			return g.arr(n, func(i int) string {
				j := at + i
				if j >= len(sorted) {
					j = len(sorted) - 1
				}
				return jsonString(sorted[j])
			})
		}
		bad := -1
		if g.big && g.latePoison && depth <= 1 && n > 60 && g.r.P(1, 2) {
			bad = n - 1 - g.r.Intn(5)
		}
		return g.arr(n, func(i int) string {
			if i == bad {
				if t.E.K == 'r' {
					return `{"o":["id","oops","name",{"n":"f64:1"},"grp",null]}`
				}
				return pick(g.r, []string{`"oops"`, "null", "true"})
			}
			return g.val(t.E, depth+1)
		})
	case 'o':
		mx := 5
		if g.r.P(1, 8) {
			mx = len(mapKeys) // objects with 8 or more members
		}
		return g.obj(g.keys(mx), func(string) string { return g.val(t.E, depth+1) })
	case 'p':
		return g.obj([]string{"x", "y"}, func(string) string { return g.num() })
	case 'r':
		if len(g.shared) > 0 && g.r.P(1, 5) {
			return pick(g.r, g.shared)
		}
		var names []string
		for _, f := range recFields {
			// (records of big documents are complete, so that calls over them
			// succeed unless the deliberate late poison is hit)
			if g.big || g.r.P(9, 10) {
				names = append(names, f.name)
			}
		}
		s := g.obj(names, func(k string) string {
			for _, f := range recFields {
				if f.name == k {
					if k == "grp" {
						return jsonString(pick(g.r, grpPool))
					}
					if k == "id" && g.r.P(2, 3) {
						return jnum(pick(g.r, []string{"f64", "jn", "int"}), strconv.Itoa(g.r.Intn(6)))
					}
					return g.val(f.ty, depth+1)
				}
			}
			return "null"
		})
		if g.r.P(1, 4) {
			g.nextDef++
			id := strconv.Itoa(g.nextDef)
			g.shared = append(g.shared, `{"ref":`+id+`}`)
			return `{"def":` + id + `,"v":` + s + `}`
		}
		return s
	case 'd':
		var names []string
		for _, f := range docFields {
			if g.r.P(19, 20) {
				names = append(names, f.name)
			}
		}
		twin := ""
		if g.r.P(1, 4) {
			// n and m: the same number in two representations
			v := g.r.Intn(20)
			reps := []string{jnum("jn", strconv.Itoa(v)+".0"), jnum("jn", strconv.Itoa(v)), jnum("f64", strconv.Itoa(v)), jnum("int", strconv.Itoa(v)), jnum("jn", strconv.Itoa(v)+"e0"), jnum("jn", strconv.Itoa(v)+".00")}
			i := g.r.Intn(len(reps))
			j := (i + 1 + g.r.Intn(len(reps)-1)) % len(reps)
			twin = reps[i] + "|" + reps[j]
		}
		return g.obj(names, func(k string) string {
			if k == "tag" {
				return jsonString(g.tag)
			}
			if twin != "" && (k == "n" || k == "m") {
				parts := strings.Split(twin, "|")
				if k == "n" {
					return parts[0]
				}
				return parts[1]
			}
			for _, f := range docFields {
				if f.name == k {
					return g.val(f.ty, depth+1)
				}
			}
			return "null"
		})
	}
	return "null"
}

// Function families: several expressions that all go through the same
// built-in function with different arguments, so that the clients of one run
// (or the calls of one history) meet inside that function's own machinery
// (a last-argument cache, a pooled scratch value, a lazily built table),
// including calls that abort inside it.
var FuncFamilies = []string{"replace", "split", "join", "pad", "zip", "group_by", "from_items", "merge", "sort_by", "find", "trim", "to_string", "contains", "map", "max_by", "sort", "slice", "let", "hash"}

// HotOnlyFamilies are used by the hot index space of C07 only (adding them to
// FuncFamilies would re-deal the family runs of every seed).
var HotOnlyFamilies = []string{"compare"}

func GenFamilyExpr(r *Rng, fam string) *Expr {
	cur := &Expr{K: KCur}
	str := func() *Expr {
		return pick(r, []*Expr{field("s"), field("tag"), {K: KIndex, C: []*Expr{field("strs")}, N: []int{r.Intn(3)}},
			mk(KSub, &Expr{K: KIndex, C: []*Expr{field("recs")}, N: []int{r.Intn(3)}}, field("name")), strLit(r), field("n")})
	}
	arr := func() *Expr {
		return pick(r, []*Expr{field("nums"), field("strs"), field("recs"), field("mixed"), field("nest"), lit(pick(r, arrNumLits)), lit(pick(r, arrStrLits)), field("nul"), field("omap")})
	}
	obj := func() *Expr {
		return pick(r, []*Expr{field("omap"), field("smap"), field("rmap"), lit(pick(r, objNumLits)), mk(KSub, &Expr{K: KIndex, C: []*Expr{field("recs")}, N: []int{0}}, field("attrs")), field("nums")})
	}
	key := func() *Expr {
		return ref(pick(r, []*Expr{field("id"), field("name"), field("grp"), cur, fn("length", cur), mk(KSub, field("pt"), field("x"))}))
	}
	// substrings that do occur in the documents' strings, so that a mixed-up
	// argument or cache entry changes the result
	part := func() *Expr {
		return &Expr{K: KStr, S: pick(r, []string{"a", "e", "l", "t", "al", "ta", "b", " ", "1", "é", "mm", "h"})}
	}
	repl := func() *Expr { return &Expr{K: KStr, S: pick(r, []string{"A", "_", "", "xx", "é", "-", "0"})} }
	var e *Expr
	switch fam {
	case "replace":
		e = fn("replace", str(), part(), repl())
		if r.P(1, 3) {
			e.C = append(e.C, intLit(r))
		}
	case "split":
		e = fn("split", str(), part())
		if r.P(1, 3) {
			e.C = append(e.C, intLit(r))
		}
	case "join":
		e = fn("join", strLit(r), arr())
	case "pad":
		e = fn(pick(r, []string{"pad_left", "pad_right"}), str(), lit(pick(r, []string{"3", "8", "20", "70", "130"})))
		if r.P(2, 3) {
			e.C = append(e.C, &Expr{K: KStr, S: pick(r, []string{"*", "-", "é", " ", "0"})})
		}
	case "zip":
		e = fn("zip", arr(), arr())
		if r.P(1, 3) {
			e.C = append(e.C, arr())
		}
	case "group_by":
		e = fn("group_by", arr(), key())
	case "from_items":
		e = fn("from_items", pick(r, []*Expr{fn("items", obj()), arr(), fn("zip", fn("keys", obj()), fn("values", obj())), lit(`[["a",1],["b",2],["a",3]]`)}))
	case "merge":
		e = fn("merge", obj(), obj())
		if r.P(1, 2) {
			e.C = append(e.C, &Expr{K: KHash, Keys: []string{pick(r, mapKeys[:5])}, C: []*Expr{str()}})
		}
	case "sort_by":
		e = fn("sort_by", arr(), key())
	case "find":
		e = fn(pick(r, []string{"find_first", "find_last"}), str(), part())
		if r.P(1, 2) {
			e.C = append(e.C, intLit(r))
		}
	case "trim":
		e = fn(pick(r, []string{"trim", "trim_left", "trim_right"}), str())
		if r.P(2, 3) {
			e.C = append(e.C, part())
		}
	case "to_string":
		if r.P(1, 2) {
			// several numbers stringified in one evaluation (equal values may be
			// written differently in the document)
			e = &Expr{K: KHash, Keys: []string{"x", "y", "z"}, C: []*Expr{fn("to_string", field("n")), fn("to_string", field("m")), fn("to_string", pick(r, []*Expr{numLit(r), field("n"), mk(KSub, &Expr{K: KIndex, C: []*Expr{field("nums")}, N: []int{0}}, nil)}))}}
			if e.C[2].C[0].K == KSub {
				e.C[2].C[0] = &Expr{K: KIndex, C: []*Expr{field("nums")}, N: []int{0}}
			}
			break
		}
		e = fn("to_string", pick(r, []*Expr{obj(), arr(), str(), &Expr{K: KRoot}}))
	case "contains":
		e = fn("contains", pick(r, []*Expr{arr(), str()}), pick(r, []*Expr{strLit(r), numLit(r), field("n")}))
	case "map":
		e = fn("map", ref(pick(r, []*Expr{fn("abs", cur), field("id"), fn("to_string", cur), mkS(KBin, "*", cur, numLit(r))})), arr())
	case "max_by":
		e = fn(pick(r, []string{"max_by", "min_by"}), arr(), key())
	case "sort":
		e = fn(pick(r, []string{"sort", "reverse"}), arr())
		if r.P(1, 3) {
			e = fn(pick(r, []string{"sort", "reverse"}), e)
		}
		if r.P(1, 2) {
			// a filter or projection directly on the function result
			e = &Expr{K: KFilter, C: []*Expr{e, mkS(KBin, pick(r, []string{">", "<", "!="}), cur, numLit(r)), nil}}
		}
	case "slice":
		e = &Expr{K: KSlice, C: []*Expr{pick(r, []*Expr{arr(), str()})}, N: []int{r.Intn(4) - 1, r.Intn(8) - 1, pick(r, []int{1, 2, -1, 3})}, F: []bool{r.P(2, 3), r.P(2, 3), r.P(1, 2)}}
	case "let":
		e = &Expr{K: KLet, Keys: []string{"a", "b"}, C: []*Expr{str(), arr(), &Expr{K: KList, C: []*Expr{{K: KVar, S: "a"}, {K: KVar, S: pick(r, []string{"b", "a", "c"})}}}}}
	case "compare":
		// ordering comparisons whose operands both come from the data, so that
		// the same node sees other operand values from element to element,
		// from call to call and from client to client
		op := pick(r, []string{"<", "<=", ">", ">="})
		rootNum := func() *Expr {
			return mk(KSub, &Expr{K: KRoot}, pick(r, []*Expr{field("n"), field("m"), {K: KIndex, C: []*Expr{field("nums")}, N: []int{r.Intn(3)}}}))
		}
		switch r.Intn(4) {
		case 0:
			e = &Expr{K: KFilter, C: []*Expr{field("recs"), mkS(KBin, op, mk(KSub, field("pt"), field("x")), mk(KSub, field("pt"), field("y"))), field("id")}}
		case 1:
			e = &Expr{K: KFilter, C: []*Expr{field("nums"), mkS(KBin, op, cur, rootNum()), nil}}
		case 2:
			e = &Expr{K: KFilter, C: []*Expr{field("recs"), mkS(KBin, op, field("id"), rootNum()), field("name")}}
		default:
			e = &Expr{K: KList, C: []*Expr{mkS(KBin, op, field("n"), field("m")), mkS(KBin, pick(r, []string{"<", ">="}), field("m"), field("n")), mkS(KBin, op, numLit(r), field("n"))}}
		}
	default: // hash
		e = &Expr{K: KHash, Keys: []string{"x", "y", pick(r, []string{"x", "z"})}, C: []*Expr{str(), arr(), obj()}}
	}
	return e
}

// GenBigDoc: a document whose arrays are beyond the size thresholds at which
// implementations switch strategy (pooled buffers, chunking, parallelism).
// GenMediumDoc: like GenBigDoc with 64-300 elements (cheap, still beyond the
// usual "small input" thresholds).
func GenMediumDoc(r *Rng, tag string) string {
	g := &DocGen{r: r, tag: tag, poison: 0, spare: 20, big: true, medium: true}
	g.latePoison = (r.P(1, 4) || strings.HasSuffix(tag, "!")) && !strings.HasSuffix(tag, "~")
	return g.val(tDoc, 0)
}

func GenBigDoc(r *Rng, tag string) string {
	g := &DocGen{r: r, tag: tag, poison: 0, spare: 20, big: true}
	g.latePoison = r.P(1, 3)
	if strings.HasSuffix(tag, "!") {
		g.latePoison = true
	}
	return g.val(tDoc, 0)
}

// bigExprs are evaluated on big documents; none of them enumerates object
// members, so outcomes must be strictly equal.
// BigFamilies: expressions that exercise the same internal machinery, so that
// several clients of one run meet in it (a pooled buffer or cache is per
// built-in function or per construct).
var BigFamilies = []string{"sort_by", "project", "filter", "map", "join", "sort", "any"}

func GenBigExprFamily(r *Rng, family string) *Expr {
	for try := 0; try < 200; try++ {
		e := GenBigExpr(r)
		t := e.Text()
		switch family {
		case "sort_by":
			if strings.Contains(t, "sort_by(") {
				return e
			}
		case "project":
			if strings.Contains(t, "[*]") {
				return e
			}
		case "filter":
			if strings.Contains(t, "[?") {
				return e
			}
		case "map":
			if strings.Contains(t, "map(") {
				return e
			}
		case "join":
			if strings.Contains(t, "join(") {
				return e
			}
		case "sort":
			if strings.Contains(t, "sort(") || strings.Contains(t, "reverse(") {
				return e
			}
		default:
			return e
		}
	}
	return GenBigExpr(r)
}

func GenBigExpr(r *Rng) *Expr {
	cur := &Expr{K: KCur}
	num := func(s string) *Expr { return lit(s) }
	proj := func(l, rhs *Expr) *Expr { return &Expr{K: KProj, C: []*Expr{l, rhs}} }
	filt := func(l, p, rhs *Expr) *Expr { return &Expr{K: KFilter, C: []*Expr{l, p, rhs}} }
	gt := func(l, rr *Expr) *Expr { return mkS(KBin, ">", l, rr) }
	nums, recs, strs := field("nums"), field("recs"), field("strs")
	c := []*Expr{
		proj(nums, nil),
		proj(nums, fn("abs", cur)),
		filt(nums, gt(cur, num("5")), nil),
		fn("map", ref(mkS(KBin, "*", cur, num("2"))), nums),
		fn("sort", nums),
		fn("reverse", nums),
		fn("sum", nums),
		fn("length", proj(nums, nil)),
		proj(recs, field("id")),
		proj(recs, field("name")),
		filt(recs, gt(field("id"), num("2")), field("name")),
		filt(recs, field("on"), nil),
		proj(fn("sort_by", recs, ref(field("id"))), field("name")),
		proj(fn("sort_by", recs, ref(field("name"))), field("id")),
		fn("max_by", recs, ref(field("id"))),
		fn("sort_by", recs, ref(field("id"))),
		fn("sort_by", nums, ref(cur)),
		proj(fn("sort_by", recs, ref(mk(KSub, field("pt"), field("y")))), field("id")),
		proj(recs, &Expr{K: KHash, Keys: []string{"a", "b"}, C: []*Expr{field("id"), field("name")}}),
		fn("group_by", recs, ref(field("grp"))),
		&Expr{K: KFlat, C: []*Expr{&Expr{K: KFlat, C: []*Expr{recs, field("vals")}}, nil}},
		fn("join", &Expr{K: KStr, S: ","}, proj(recs, field("grp"))),
		fn("join", &Expr{K: KStr, S: "-"}, strs),
		&Expr{K: KSlice, C: []*Expr{nums}, N: []int{10, 4000, 7}, F: []bool{true, true, true}},
		&Expr{K: KList, C: []*Expr{proj(nums, nil), proj(recs, field("id"))}},
		proj(recs, mk(KSub, field("pt"), field("x"))),
		fn("map", ref(fn("length", field("vals"))), recs),
		fn("sort", proj(strs, nil)),
		filt(strs, mkS(KBin, "!=", cur, &Expr{K: KStr, S: "x"}), nil),
		fn("contains", nums, num("7")),
		mk(KPipe, proj(recs, field("vals")), &Expr{K: KFlat, C: []*Expr{nil, nil}}),
		// enumeration of many short-lived temporaries (their addresses get reused
		// when a collection runs in the middle of the evaluation)
		proj(recs, fn("keys", fn("merge", cur, cur))),
		proj(recs, fn("sort", fn("keys", fn("merge", cur, &Expr{K: KHash, Keys: []string{"extra"}, C: []*Expr{field("id")}})))),
		proj(recs, fn("length", fn("values", fn("merge", cur, field("pt"))))),
		fn("map", ref(fn("items", &Expr{K: KHash, Keys: []string{"k", "v"}, C: []*Expr{field("name"), field("id")}})), recs),
		// ... temporaries of equal size but different member names
		proj(recs, fn("keys", fn("from_items", &Expr{K: KList, C: []*Expr{{K: KList, C: []*Expr{field("name"), field("id")}}}}))),
		proj(recs, fn("sort", fn("keys", fn("from_items", &Expr{K: KList, C: []*Expr{{K: KList, C: []*Expr{field("grp"), field("id")}}, {K: KList, C: []*Expr{field("name"), field("on")}}}})))),
		proj(recs, fn("values", fn("from_items", &Expr{K: KList, C: []*Expr{{K: KList, C: []*Expr{field("name"), field("id")}}}}))),
	}
	e := pick(r, c)
	if r.P(1, 3) {
		e = &Expr{K: KLet, Keys: []string{"big"}, C: []*Expr{e, &Expr{K: KList, C: []*Expr{fn("length", &Expr{K: KVar, S: "big"}), &Expr{K: KVar, S: "big"}}}}}
	}
	return e
}

// GenDoc returns the typed encoding of a fresh root document.
func GenDoc(r *Rng, tag string, poison, spare int) string {
	g := &DocGen{r: r, tag: tag, poison: poison, spare: spare}
	switch r.Intn(40) {
	case 0:
		return "null"
	case 1:
		return g.val(tA(tRec), 1)
	case 2:
		return g.str()
	case 3:
		return g.val(tO(tN), 1)
	}
	// refs must follow defs in encoding order; obj() keeps generation order
	return g.val(tDoc, 0)
}

// ---------------------------------------------------------------------------
// Expression generator (type directed over the schema above).
// ---------------------------------------------------------------------------

type Bias struct {
	Enum    int // weight of object enumeration (keys/values/items/*)
	Lits    int // weight of JSON literals returned by reference
	Fail    int // percent of sub-expressions replaced by a failing one (F3)
	Let     int // percent let wrappers
	Unsafe  int // percent: allow order-sensitive consumers downstream of enumerations
	Invalid int // percent of syntactically mutated (mostly invalid) texts
}

type ExprGen struct {
	r    *Rng
	b    Bias
	vars []fld // variables in scope
	nvar int
}

func (g *ExprGen) w(n int) bool { return g.r.Intn(100) < n }

func numLit(r *Rng) *Expr {
	return lit(pick(r, []string{"0", "1", "2", "3", "5", "10", "2.5", "-1", "1.0", "100", "1e2", "0.25"}))
}

func intLit(r *Rng) *Expr {
	return lit(pick(r, []string{"0", "1", "2", "3", "4", "7", "-1", "1.5", "10", "100"}))
}

func strLit(r *Rng) *Expr {
	if r.P(1, 14) {
		// a raw string whose body is byte-identical to the body of a quoted
		// identifier used elsewhere: raw strings keep the backslash
		return &Expr{K: KStr, S: pick(r, []string{`t\tb`, `q\"t`, `\u00e9`, `a\nb`, `it\'s  here`, `it\'s here`, `a  b`, "a\tb", "a b"}), F: []bool{true}}
	}
	s := pick(r, []string{"alpha", "a", "g1", "g2", "x", "é", ",", "b", ""})
	if r.P(1, 3) {
		return lit(jsonString(s))
	}
	return &Expr{K: KStr, S: s}
}

var arrNumLits = []string{"[3,1,2]", "[1,2,3,4,5]", "[]", "[2,2,1]", "[10,9.5,-3]", "[1,1.0,1.00]"}
var arrStrLits = []string{`["b","a","c"]`, `["x"]`, `[]`, `["g2","g1","g2"]`}
var arrRecLits = []string{
	`[{"id":2,"name":"q","grp":"g1","vals":[1]},{"id":1,"name":"p","grp":"g2","vals":[3,2]},{"id":3,"name":"r","grp":"g1","vals":[]}]`,
	`[{"id":1,"name":"z","grp":"g3","on":true,"pt":{"x":1,"y":2}}]`,
	`[]`,
}
var objNumLits = []string{`{"b":2,"a":1,"c":3}`, `{}`, `{"k1":7}`, `{"zz":0,"a":5,"e":2,"d":9}`}
var objStrLits = []string{`{"b":"y","a":"x"}`, `{}`, `{"k":"v","j":"w","i":"u"}`}
var recLits = []string{`{"id":7,"name":"lit","grp":"g1","vals":[4,5],"attrs":{"p":"q"},"on":false,"pt":{"x":0,"y":1}}`}
var mixedLits = []string{`[1,"a",null,true,[2],{"k":1}]`, `[null,null]`, `["a",1]`, `[[1,2],[3],[],4]`, `[{"a":[3,1,2]},{"a":[]}]`}

func (g *ExprGen) literal(t *Ty) *Expr {
	switch t.K {
	case 'n':
		return numLit(g.r)
	case 's':
		return strLit(g.r)
	case 'b':
		return lit(pick(g.r, []string{"true", "false"}))
	case '0':
		return lit("null")
	case 'r':
		return lit(pick(g.r, recLits))
	case 'p':
		return lit(`{"x":1,"y":2}`)
	case 'd':
		return &Expr{K: KRoot}
	case 'a':
		switch t.E.K {
		case 'n':
			return lit(pick(g.r, arrNumLits))
		case 's':
			return lit(pick(g.r, arrStrLits))
		case 'r':
			return lit(pick(g.r, arrRecLits))
		case 'a':
			return lit(pick(g.r, []string{"[[1,2],[3],[]]", "[[3,1],[2]]", "[]"}))
		}
		return lit(pick(g.r, mixedLits))
	case 'o':
		switch t.E.K {
		case 'n':
			return lit(pick(g.r, objNumLits))
		case 's':
			return lit(pick(g.r, objStrLits))
		case 'r':
			return lit(`{"r1":` + recLits[0] + `,"r0":{"id":0,"name":"n0","grp":"g2"}}`)
		}
		return lit(pick(g.r, objNumLits))
	}
	return lit(pick(g.r, mixedLits))
}

// compose: evaluate r with current = value of l.
func (g *ExprGen) compose(l, r *Expr) *Expr {
	if _, ok := tailText(r); ok && g.r.P(2, 3) {
		return mk(KSub, l, r)
	}
	return mk(KPipe, l, r)
}

// path: a chain of fields/indices from a value of type cur to a value of type
// want (nil if none found in a few random walks).
func (g *ExprGen) path(want, cur *Ty) *Expr {
	for try := 0; try < 6; try++ {
		var e *Expr
		t := cur
		for step := 0; step < 4; step++ {
			if e != nil && (want.K == '*' || t.eq(want)) && (g.r.P(2, 3) || step == 3) {
				return e
			}
			var next *Expr
			var nt *Ty
			switch t.K {
			case 'd', 'r', 'p':
				fs := fieldsOf(t)
				f := pick(g.r, fs)
				// prefer fields that can lead to want
				for k := 0; k < 3 && !leadsTo(f.ty, want); k++ {
					f = pick(g.r, fs)
				}
				next, nt = field(f.name), f.ty
			case 'o':
				next, nt = field(pick(g.r, mapKeys[:6])), t.E
			case 'a':
				next, nt = &Expr{K: KIndex, C: []*Expr{nil}, N: []int{g.r.Intn(4) - 1}}, t.E
			default:
				step = 99
				continue
			}
			if e == nil {
				e = next
			} else if next.K == KIndex {
				next.C[0] = e
				e = next
			} else {
				e = mk(KSub, e, next)
			}
			t = nt
		}
		if e != nil && (want.K == '*' || t.eq(want)) {
			return e
		}
	}
	return nil
}

func leadsTo(t, want *Ty) bool {
	if want.K == '*' || t.eq(want) {
		return true
	}
	switch t.K {
	case 'a', 'o':
		return leadsTo(t.E, want)
	case 'r':
		for _, f := range recFields {
			if f.ty.K != 'r' && leadsTo(f.ty, want) {
				return true
			}
		}
	case 'p':
		return want.K == 'n'
	case 'd':
		return true
	}
	return false
}

func (g *ExprGen) leaf(want, cur *Ty) *Expr {
	// variable
	if len(g.vars) > 0 && g.r.P(1, 3) {
		var cands []fld
		for _, v := range g.vars {
			if want.K == '*' || v.ty.eq(want) {
				cands = append(cands, v)
			}
		}
		if len(cands) > 0 {
			return &Expr{K: KVar, S: pick(g.r, cands).name}
		}
	}
	if g.r.Intn(100) < g.b.Lits {
		return g.literal(want)
	}
	if g.r.P(1, 5) {
		if p := g.path(want, tDoc); p != nil {
			return mk(KSub, &Expr{K: KRoot}, p)
		}
	}
	if p := g.path(want, cur); p != nil {
		return p
	}
	if want.K == cur.K && (cur.E == nil || want.eq(cur)) && g.r.P(1, 2) {
		return &Expr{K: KCur}
	}
	if p := g.path(want, tDoc); p != nil {
		return mk(KSub, &Expr{K: KRoot}, p)
	}
	return g.literal(want)
}

func (g *ExprGen) anyTy() *Ty {
	return pick(g.r, []*Ty{tN, tS, tB, tA(tN), tA(tS), tA(tRec), tO(tN), tO(tS), tRec, tA(tA(tN)), tO(tRec)})
}

func ref(e *Expr) *Expr { return mk(KRef, e) }

// failing: an expression that reports a run-time error (F3 aborted call).
func (g *ExprGen) failing(cur *Ty, depth int) *Expr {
	switch g.r.Intn(8) {
	case 0:
		return fn("abs", g.gen(tS, cur, depth+1))
	case 1:
		if g.r.P(1, 2) {
			// a name that some let elsewhere in the expression binds: out of scope here
			return &Expr{K: KVar, S: pick(g.r, []string{"v0", "v1", "v2", "v3", "v4", "w0", "w1", "w2"})}
		}
		return &Expr{K: KVar, S: "undefined_" + strconv.Itoa(g.r.Intn(3))}
	case 2:
		return mkS(KBin, "/", g.gen(tN, cur, depth+1), lit("0"))
	case 3:
		return fn("from_items", g.gen(tA(tN), cur, depth+1))
	case 4:
		return fn("sort", lit(`[1,"a",2]`))
	case 5:
		return fn("length", lit("null"))
	case 6:
		return fn("keys", g.gen(tA(tN), cur, depth+1))
	}
	return fn("to_number", g.gen(tS, cur, depth+1)) // not failing: null
}

// Gen generates an expression expected to produce a value of type want when
// evaluated with a current node of type cur.
func (g *ExprGen) gen(want, cur *Ty, depth int) *Expr {
	if want.K == '*' {
		want = g.anyTy()
	}
	if depth > 4 || (depth > 1 && g.r.P(1, 4)) {
		return g.leaf(want, cur)
	}
	if g.w(g.b.Fail) && depth > 0 {
		return g.failing(cur, depth)
	}
	if g.w(g.b.Let) && g.r.P(1, 3) {
		// shadowing pattern: a binding that refers to a name its own let also
		// (re)defines must see the OUTER value, whatever order the bindings are
		// evaluated in
		g.nvar++
		x := "v" + strconv.Itoa(g.nvar%5)
		y := "w" + strconv.Itoa(g.nvar%3)
		outer := &Expr{K: KLet, Keys: []string{x}}
		outer.C = append(outer.C, g.gen(want, cur, depth+1))
		inner := &Expr{K: KLet, Keys: []string{x, y}}
		inner.C = append(inner.C, g.gen(want, cur, depth+2), &Expr{K: KVar, S: x})
		if g.r.P(2, 3) {
			inner.Keys = append(inner.Keys, "z"+strconv.Itoa(g.r.Intn(3)))
			inner.C = append(inner.C, g.gen(g.anyTy(), cur, depth+2))
		}
		if g.r.P(1, 3) {
			// reorder the bindings in the text
			inner.Keys[0], inner.Keys[1] = inner.Keys[1], inner.Keys[0]
			inner.C[0], inner.C[1] = inner.C[1], inner.C[0]
		}
		var body *Expr = &Expr{K: KVar, S: y}
		if g.r.P(1, 2) {
			body = &Expr{K: KList, C: []*Expr{{K: KVar, S: y}, {K: KVar, S: x}}}
		}
		inner.C = append(inner.C, body)
		outer.C = append(outer.C, inner)
		return outer
	}
	if g.w(g.b.Let) && g.r.P(1, 4) {
		// scope-lifetime probes: a name bound by a nested let must not be
		// visible to a sibling of that let
		g.nvar++
		b := "s" + strconv.Itoa(g.nvar%3)
		inner := &Expr{K: KLet, Keys: []string{b}, C: []*Expr{g.gen(want, cur, depth+2), {K: KVar, S: b}}}
		leak := &Expr{K: KVar, S: b}
		var body *Expr
		if g.r.P(1, 2) {
			body = &Expr{K: KHash, Keys: []string{"x", "y"}, C: []*Expr{inner, leak}}
		} else {
			body = &Expr{K: KList, C: []*Expr{inner, leak}}
		}
		outer := &Expr{K: KLet, Keys: []string{"o" + strconv.Itoa(g.nvar%2)}, C: []*Expr{g.gen(g.anyTy(), cur, depth+1)}}
		if g.r.P(1, 2) {
			// the outer let binds the same name: the sibling must see the OUTER value
			outer.Keys = append(outer.Keys, b)
			outer.C = append(outer.C, g.gen(want, cur, depth+1))
			mid := &Expr{K: KLet, Keys: []string{"m0"}, C: []*Expr{g.gen(g.anyTy(), cur, depth+2), body}}
			outer.C = append(outer.C, mid)
			return outer
		}
		outer.C = append(outer.C, body)
		return outer
	}
	if g.w(g.b.Let) {
		n := 1 + g.r.Intn(3)
		le := &Expr{K: KLet}
		saved := g.vars
		var added []fld
		for i := 0; i < n; i++ {
			t := g.anyTy()
			g.nvar++
			name := "v" + strconv.Itoa(g.nvar%5)
			le.Keys = append(le.Keys, name)
			le.C = append(le.C, g.gen(t, cur, depth+1)) // siblings are not in scope
			added = append(added, fld{name, t})
		}
		g.vars = append(append([]fld(nil), saved...), added...)
		le.C = append(le.C, g.gen(want, cur, depth+1))
		g.vars = saved
		return le
	}
	if g.r.P(1, 12) {
		// pipe through an intermediate value
		t := g.anyTy()
		return mk(KPipe, g.gen(t, cur, depth+1), g.gen(want, t, depth+1))
	}
	if g.r.P(1, 15) {
		op := pick(g.r, []string{"||", "&&"})
		return mkS(KBin, op, g.gen(want, cur, depth+1), g.gen(want, cur, depth+1))
	}
	if g.r.P(1, 20) {
		return fn("not_null", g.gen(want, cur, depth+1), g.gen(want, cur, depth+1))
	}
	d := depth + 1
	switch want.K {
	case 'n':
		switch g.r.Intn(13) {
		case 0:
			return fn("length", g.gen(pick(g.r, []*Ty{tA(tN), tS, tO(tN), tA(tRec)}), cur, d))
		case 1:
			return fn(pick(g.r, []string{"sum", "avg", "max", "min"}), g.gen(tA(tN), cur, d))
		case 2, 3:
			return mkS(KBin, pick(g.r, []string{"+", "-", "*", "/", "%", "//", "×", "÷", "−"}), g.gen(tN, cur, d), g.gen(tN, cur, d))
		case 4:
			return fn(pick(g.r, []string{"abs", "ceil", "floor"}), g.gen(tN, cur, d))
		case 5:
			return fn("to_number", g.gen(tS, cur, d))
		case 6:
			return mk(KNeg, g.gen(tN, cur, d))
		case 7:
			return &Expr{K: KIndex, C: []*Expr{g.gen(tA(tN), cur, d)}, N: []int{g.r.Intn(4) - 1}}
		case 8:
			return g.compose(g.gen(tRec, cur, d), field("id"))
		case 9:
			if g.w(g.b.Enum) {
				return fn(pick(g.r, []string{"sum", "max", "min", "length", "avg"}), g.enumArr(tN, cur, d))
			}
		case 10:
			f := fn(pick(g.r, []string{"find_first", "find_last"}), g.gen(tS, cur, d), strLit(g.r))
			if g.r.P(1, 2) {
				f.C = append(f.C, intLit(g.r))
				if g.r.P(1, 2) {
					f.C = append(f.C, intLit(g.r))
				}
			}
			return f
		}
		return g.leaf(want, cur)
	case 's':
		switch g.r.Intn(15) {
		case 0:
			return fn("join", strLit(g.r), g.gen(tA(tS), cur, d))
		case 1:
			return fn("to_string", g.gen(tAny, cur, d))
		case 2:
			return fn("type", g.gen(tAny, cur, d))
		case 3:
			return fn(pick(g.r, []string{"upper", "lower", "trim", "reverse"}), g.gen(tS, cur, d))
		case 4:
			return fn(pick(g.r, []string{"max", "min"}), g.gen(tA(tS), cur, d))
		case 5:
			return &Expr{K: KIndex, C: []*Expr{g.gen(tA(tS), cur, d)}, N: []int{g.r.Intn(3) - 1}}
		case 6:
			return g.compose(g.gen(tRec, cur, d), field(pick(g.r, []string{"name", "grp"})))
		case 7:
			return &Expr{K: KSlice, C: []*Expr{g.gen(tS, cur, d)}, N: []int{g.r.Intn(3), 1 + g.r.Intn(4), 1}, F: []bool{true, true, false}}
		case 8:
			if g.w(g.b.Enum) {
				return fn(pick(g.r, []string{"max", "min"}), fn("keys", g.gen(tO(tN), cur, d)))
			}
		case 9:
			f := fn("replace", g.gen(tS, cur, d), strLit(g.r), strLit(g.r))
			if g.r.P(1, 2) {
				f.C = append(f.C, intLit(g.r))
			}
			return f
		case 10:
			name := pick(g.r, []string{"pad_left", "pad_right"})
			f := fn(name, g.gen(tS, cur, d), intLit(g.r))
			if g.r.P(1, 2) {
				f.C = append(f.C, pick(g.r, []*Expr{{K: KStr, S: "*"}, {K: KStr, S: "é"}, {K: KStr, S: "ab"}, {K: KStr, S: ""}}))
			}
			return f
		case 11:
			name := pick(g.r, []string{"trim", "trim_left", "trim_right"})
			f := fn(name, g.gen(tS, cur, d))
			if g.r.P(2, 3) {
				f.C = append(f.C, pick(g.r, []*Expr{{K: KStr, S: "a"}, {K: KStr, S: " x"}, {K: KStr, S: "é日"}, {K: KStr, S: ""}}))
			}
			return f
		case 12:
			e := &Expr{K: KSlice, C: []*Expr{g.gen(tS, cur, d)}}
			e.N = []int{g.r.Intn(5) - 2, g.r.Intn(7) - 2, pick(g.r, []int{1, 2, -1, -2, 3})}
			e.F = []bool{g.r.P(1, 2), g.r.P(1, 2), true}
			return e
		}
		return g.leaf(want, cur)
	case 'b':
		switch g.r.Intn(8) {
		case 0, 1:
			return mkS(KBin, pick(g.r, []string{"<", "<=", ">", ">=", "==", "!="}), g.gen(tN, cur, d), g.gen(tN, cur, d))
		case 2:
			t := g.anyTy()
			if g.r.P(1, 2) {
				// the same value on both sides (possibly a large object)
				e := g.gen(pick(g.r, []*Ty{tDoc, tO(tN), tO(tRec), tRec, t}), cur, d)
				return mkS(KBin, pick(g.r, []string{"==", "!="}), e, e.clone())
			}
			return mkS(KBin, pick(g.r, []string{"==", "!="}), g.gen(t, cur, d), g.gen(t, cur, d))
		case 3:
			if g.r.P(1, 4) {
				return fn("contains", g.gen(tA(tRec), cur, d), g.gen(tRec, cur, d))
			}
			return fn("contains", g.gen(tA(tN), cur, d), g.gen(tN, cur, d))
		case 4:
			return mk(KNot, g.gen(tAny, cur, d))
		case 5:
			return fn(pick(g.r, []string{"starts_with", "ends_with", "contains"}), g.gen(tS, cur, d), strLit(g.r))
		case 6:
			if g.w(g.b.Enum) {
				return fn("contains", fn("keys", g.gen(tO(tN), cur, d)), strLit(g.r))
			}
		}
		return g.leaf(want, cur)
	case 'a':
		return g.genArr(want, cur, d)
	case 'o':
		return g.genObj(want, cur, d)
	case 'r':
		switch g.r.Intn(6) {
		case 0:
			return fn(pick(g.r, []string{"max_by", "min_by"}), g.gen(tA(tRec), cur, d), ref(field(pick(g.r, []string{"id", "name"}))))
		case 1:
			return &Expr{K: KIndex, C: []*Expr{g.gen(tA(tRec), cur, d)}, N: []int{g.r.Intn(4) - 1}}
		case 2:
			return fn("merge", g.gen(tRec, cur, d), &Expr{K: KHash, Keys: []string{"extra"}, C: []*Expr{g.gen(tN, cur, d)}})
		}
		return g.leaf(want, cur)
	}
	return g.leaf(want, cur)
}

// enumArr: an array obtained by enumerating an object's members.
func (g *ExprGen) enumArr(el *Ty, cur *Ty, d int) *Expr {
	switch el.K {
	case 's':
		switch g.r.Intn(3) {
		case 0:
			return fn("keys", g.gen(pick(g.r, []*Ty{tO(tN), tO(tS), tO(tRec), tRec}), cur, d))
		case 1:
			return fn("values", g.gen(tO(tS), cur, d))
		}
		return &Expr{K: KOProj, C: []*Expr{g.gen(tO(tRec), cur, d), field("name")}}
	case 'n':
		switch g.r.Intn(3) {
		case 0:
			return fn("values", g.gen(tO(tN), cur, d))
		case 1:
			return &Expr{K: KOProj, C: []*Expr{g.gen(tO(tN), cur, d), nil}}
		}
		return &Expr{K: KOProj, C: []*Expr{g.gen(tO(tRec), cur, d), field("id")}}
	case 'r':
		if g.r.P(1, 2) {
			return fn("values", g.gen(tO(tRec), cur, d))
		}
		return &Expr{K: KOProj, C: []*Expr{g.gen(tO(tRec), cur, d), nil}}
	}
	return fn("values", g.gen(tO(el), cur, d))
}

func (g *ExprGen) keyRef(el *Ty) *Expr {
	switch el.K {
	case 'r':
		if g.r.P(1, 5) {
			// a key that also depends on the root document
			return ref(mkS(KBin, "*", field("id"), mk(KSub, &Expr{K: KRoot}, field(pick(g.r, []string{"n", "m"})))))
		}
		return ref(field(pick(g.r, []string{"id", "name", "grp"})))
	case 'n', 's':
		return ref(&Expr{K: KCur})
	}
	return ref(fn("length", &Expr{K: KCur}))
}

func (g *ExprGen) genArr(want, cur *Ty, d int) *Expr {
	el := want.E
	if g.w(g.b.Enum) && (el.K == 'n' || el.K == 's' || el.K == 'r') {
		e := g.enumArr(el, cur, d)
		// order-insensitive consumers keep the mode comparable
		switch g.r.Intn(8) {
		case 0:
			if el.K != 'r' {
				return fn("sort", e)
			}
		case 1:
			return fn("reverse", e)
		case 2:
			return &Expr{K: KFilter, C: []*Expr{e, g.gen(tB, el, d+1), nil}}
		case 3:
			if g.w(g.b.Unsafe) {
				return &Expr{K: KSlice, C: []*Expr{e}, N: []int{0, 2, 1}, F: []bool{true, true, false}}
			}
		}
		return e
	}
	window := func(e *Expr) *Expr {
		if !g.r.P(1, 3) {
			return e
		}
		// a step-less slice is a window onto the caller's array
		w := &Expr{K: KSlice, C: []*Expr{e}, N: []int{g.r.Intn(3), 2 + g.r.Intn(5), 1}, F: []bool{g.r.P(2, 3), g.r.P(1, 2), false}}
		if !w.F[0] && !w.F[1] {
			w.F[0] = true
		}
		return w
	}
	switch g.r.Intn(18) {
	case 0:
		if el.K == 'n' || el.K == 's' {
			return fn("sort", window(g.gen(want, cur, d)))
		}
		return fn("sort_by", window(g.gen(want, cur, d)), g.keyRef(el))
	case 1:
		return fn("reverse", window(g.gen(want, cur, d)))
	case 2:
		s := &Expr{K: KSlice, C: []*Expr{g.gen(want, cur, d)}}
		s.N = []int{g.r.Intn(4) - 1, g.r.Intn(6) - 1, pick(g.r, []int{1, 2, -1, 3, -2})}
		s.F = []bool{g.r.P(2, 3), g.r.P(2, 3), g.r.P(1, 2)}
		return s
	case 3, 4:
		// projection over some array of X with a right-hand side producing el
		xt := pick(g.r, []*Ty{tRec, tN, tS, tA(tN)})
		var rhsE *Expr
		switch {
		case xt.K == 'r' && el.K == 'n':
			rhsE = pick(g.r, []*Expr{field("id"), mk(KSub, field("pt"), field("x")), fn("length", field("vals")), fn("sum", field("vals"))})
		case xt.K == 'r' && el.K == 's':
			rhsE = pick(g.r, []*Expr{field("name"), field("grp"), fn("to_string", field("id")), fn("type", &Expr{K: KCur})})
		case xt.K == 'r' && el.K == 'a':
			rhsE = field("vals")
		case xt.K == 'r' && el.K == 'o':
			rhsE = &Expr{K: KHash, Keys: []string{"i", "n"}, C: []*Expr{field("id"), field("name")}}
		case xt.K == 'a' && g.r.P(1, 2):
			rhsE = pick(g.r, []*Expr{
				{K: KIndex, C: []*Expr{nil}, N: []int{g.r.Intn(3) - 1}},
				{K: KFilter, C: []*Expr{nil, mkS(KBin, ">", &Expr{K: KCur}, numLit(g.r)), nil}},
				{K: KProj, C: []*Expr{nil, nil}},
			})
		default:
			rhsE = fn("not_null", g.gen(el, xt, d+1))
		}
		if xt.K == 'r' && g.r.P(1, 3) {
			// chained right-hand sides that the parser handles inside a projection
			rhsE = pick(g.r, []*Expr{
				{K: KHash, Keys: []string{"i", "n"}, C: []*Expr{field("id"), field("name")}},
				{K: KHash, Keys: []string{"only"}, C: []*Expr{field("grp")}},
				{K: KList, C: []*Expr{field("id"), field("grp")}},
				{K: KList, C: []*Expr{field("name")}},
				{K: KOProj, C: []*Expr{nil, nil}},
				{K: KOProj, C: []*Expr{field("attrs"), nil}},
				{K: KOProj, C: []*Expr{field("pt"), nil}},
				{K: KIndex, C: []*Expr{field("vals")}, N: []int{g.r.Intn(3) - 1}},
				{K: KProj, C: []*Expr{field("vals"), nil}},
				mk(KSub, field("pt"), &Expr{K: KList, C: []*Expr{field("x"), field("y")}}),
				mk(KSub, field("pt"), &Expr{K: KHash, Keys: []string{"X"}, C: []*Expr{field("x")}}),
			})
		}
		if g.r.P(1, 5) {
			rhsE = nil
			xt = el
		}
		src := g.gen(tA(xt), cur, d)
		switch g.r.Intn(4) {
		case 0:
			return &Expr{K: KFilter, C: []*Expr{src, g.gen(tB, xt, d+1), rhsE}}
		case 1:
			sp := &Expr{K: KSProj, C: []*Expr{src, rhsE}}
			sp.N = []int{g.r.Intn(3), 1 + g.r.Intn(4), 1}
			sp.F = []bool{g.r.P(1, 2), g.r.P(1, 2), false}
			return sp
		}
		return &Expr{K: KProj, C: []*Expr{src, rhsE}}
	case 5:
		if el.K == 'n' && g.r.P(1, 2) {
			// flatten-and-project: recs[].vals[] style chains
			return &Expr{K: KFlat, C: []*Expr{&Expr{K: KFlat, C: []*Expr{g.gen(tA(tRec), cur, d), field("vals")}}, nil}}
		}
		if g.r.P(1, 3) {
			// leading-bracket forms applied to the current node after a pipe
			src := g.gen(tA(want), cur, d)
			return mk(KPipe, src, &Expr{K: KFlat, C: []*Expr{nil, nil}})
		}
		return &Expr{K: KFlat, C: []*Expr{g.gen(tA(want), cur, d), nil}}
	case 13:
		src := g.gen(want, cur, d)
		var tail *Expr
		switch g.r.Intn(4) {
		case 0:
			tail = &Expr{K: KProj, C: []*Expr{nil, nil}}
		case 1:
			tail = &Expr{K: KFilter, C: []*Expr{nil, g.gen(tB, el, d+1), nil}}
		case 2:
			tail = &Expr{K: KSlice, C: []*Expr{nil}, N: []int{g.r.Intn(3), 1 + g.r.Intn(4), 1}, F: []bool{true, true, false}}
		default:
			tail = &Expr{K: KSProj, C: []*Expr{nil, nil}, N: []int{0, 0, pick(g.r, []int{1, 2, -1})}, F: []bool{false, false, true}}
		}
		return mk(KPipe, src, tail)
	case 14:
		if el.K == 's' {
			f := fn("split", g.gen(tS, cur, d), strLit(g.r), intLit(g.r))
			return f
		}
	case 6:
		xt := pick(g.r, []*Ty{tRec, tN, tS})
		return fn("map", ref(g.gen(el, xt, d+1)), g.gen(tA(xt), cur, d))
	case 7:
		n := 1 + g.r.Intn(3)
		l := &Expr{K: KList}
		if g.r.P(1, 3) {
			// child.[a, b]: evaluated against an intermediate value
			t := pick(g.r, []*Ty{tRec, tDoc, tPt})
			for i := 0; i < n; i++ {
				l.C = append(l.C, g.gen(el, t, d+1))
			}
			return mk(KSub, g.gen(t, cur, d), l)
		}
		for i := 0; i < n; i++ {
			l.C = append(l.C, g.gen(el, cur, d))
		}
		return l
	case 8:
		return fn("to_array", g.gen(pick(g.r, []*Ty{want, el}), cur, d))
	case 9:
		if el.K == 's' {
			return fn("split", g.gen(tS, cur, d), strLit(g.r))
		}
		if el.K == 'a' {
			return fn("zip", g.gen(tA(tN), cur, d), g.gen(tA(tS), cur, d))
		}
	case 10:
		if el.K == 'r' {
			return fn("sort_by", g.gen(want, cur, d), g.keyRef(el))
		}
	case 11:
		if el.K == 'a' || el.K == '*' {
			return fn("items", g.gen(tO(tN), cur, d))
		}
	case 12:
		return g.literal(want)
	case 15, 16:
		if el.K == 'n' || el.K == 's' {
			// a filter directly on the result of a function that may hand back its
			// argument (already sorted input, nothing to prune, ...)
			src := pick(g.r, []*Expr{g.literal(want), g.leaf(want, cur)})
			f := fn(pick(g.r, []string{"sort", "reverse", "to_array", "not_null"}), src)
			pred := mkS(KBin, pick(g.r, []string{">", "<", "!=", "=="}), &Expr{K: KCur}, g.literal(el))
			return &Expr{K: KFilter, C: []*Expr{f, pred, nil}}
		}
	}
	return g.leaf(want, cur)
}

func (g *ExprGen) genObj(want, cur *Ty, d int) *Expr {
	el := want.E
	switch g.r.Intn(9) {
	case 0, 1:
		n := 1 + g.r.Intn(4)
		h := &Expr{K: KHash}
		for i := 0; i < n; i++ {
			h.Keys = append(h.Keys, pick(g.r, mapKeys[:5])) // duplicates on purpose
			h.C = append(h.C, g.gen(el, cur, d))
		}
		if g.r.P(1, 3) {
			t := pick(g.r, []*Ty{tRec, tDoc, tPt, tAny})
			h2 := &Expr{K: KHash}
			for i := 0; i < n; i++ {
				h2.Keys = append(h2.Keys, pick(g.r, mapKeys[:8]))
				h2.C = append(h2.C, g.gen(el, t, d+1))
			}
			return mk(KSub, g.gen(t, cur, d), h2)
		}
		return h
	case 2, 3:
		n := 2 + g.r.Intn(2)
		m := fn("merge")
		for i := 0; i < n; i++ {
			m.C = append(m.C, g.gen(want, cur, d))
		}
		return m
	case 4:
		return fn("from_items", fn("items", g.gen(want, cur, d)))
	case 5:
		if el.K == 'a' {
			return fn("group_by", g.gen(tA(tRec), cur, d), ref(field("grp")))
		}
		return fn("from_items", fn("zip", fn("keys", g.gen(want, cur, d)), fn("values", g.gen(want, cur, d))))
	case 6:
		return g.literal(want)
	case 7:
		// pairs with duplicate keys: last one wins
		return fn("from_items", lit(`[["a",1],["b",2],["a",3]]`))
	}
	return g.leaf(want, cur)
}

// GenExpr builds one top-level expression.
func GenExpr(r *Rng, b Bias) *Expr {
	g := &ExprGen{r: r, b: b}
	var e *Expr
	switch r.Intn(10) {
	case 0, 1:
		// multi-select of several things: many map ranges, several results
		n := 2 + r.Intn(3)
		if r.P(1, 2) {
			h := &Expr{K: KHash}
			for i := 0; i < n; i++ {
				h.Keys = append(h.Keys, pick(r, mapKeys[:6]))
				h.C = append(h.C, g.gen(tAny, tDoc, 1))
			}
			e = h
		} else {
			l := &Expr{K: KList}
			for i := 0; i < n; i++ {
				l.C = append(l.C, g.gen(tAny, tDoc, 1))
			}
			e = l
		}
	case 3:
		if r.P(1, 3) {
			// two readers of the same array, one of which re-orders a copy of it
			x := pick(r, []*Expr{field("nums"), field("strs"), mk(KSub, field("recs"), nil)})
			if x.K == KSub {
				x = field("nums")
			}
			view := pick(r, []*Expr{
				{K: KProj, C: []*Expr{x.clone(), nil}},
				{K: KSlice, C: []*Expr{x.clone()}, N: []int{0, 9, 1}, F: []bool{r.P(1, 2), true, false}},
				x.clone(),
			})
			sorted := fn(pick(r, []string{"sort", "reverse"}), view)
			first := &Expr{K: KIndex, C: []*Expr{x.clone()}, N: []int{0}}
			switch r.Intn(3) {
			case 0:
				e = &Expr{K: KHash, Keys: []string{"first", "ranked"}, C: []*Expr{first, sorted}}
			case 1:
				e = &Expr{K: KHash, Keys: []string{"ranked", "all", "first"}, C: []*Expr{sorted, x.clone(), first}}
			default:
				e = &Expr{K: KLet, Keys: []string{"s", "f"}, C: []*Expr{sorted, first, &Expr{K: KList, C: []*Expr{{K: KVar, S: "f"}, {K: KVar, S: "s"}}}}}
			}
		} else {
			e = g.gen(tAny, tDoc, 0)
		}
	case 2:
		e = fn("group_by", g.gen(tA(tRec), tDoc, 1), ref(field("grp")))
	default:
		e = g.gen(tAny, tDoc, 0)
	}
	if r.Intn(100) < b.Invalid {
		return mutateText(r, e)
	}
	if r.P(1, 50) {
		// deeply nested text (parser recursion, depth guards)
		n := pick(r, []int{120, 300, 450, 1100})
		op, cl := "(", ")"
		if r.P(1, 3) {
			op, cl = "[", "]"
		}
		if r.P(1, 4) {
			// a long chain instead of nesting: a.a.a....
			return &Expr{K: KRaw, S: pick(r, []string{"rmap", "n", "recs[0]"}) + strings.Repeat(pick(r, []string{".a", ".pt", "[0]"}), n)}
		}
		return &Expr{K: KRaw, S: strings.Repeat(op, n) + e.Text() + strings.Repeat(cl, n)}
	}
	return e
}

// mutateText damages the rendered text (mostly producing static errors).
func mutateText(r *Rng, e *Expr) *Expr {
	s := e.Text()
	rs := []rune(s)
	if len(rs) == 0 {
		return &Expr{K: KRaw, S: ""}
	}
	switch r.Intn(6) {
	case 0:
		i := r.Intn(len(rs))
		rs = append(rs[:i], rs[i+1:]...)
	case 1:
		i := r.Intn(len(rs) + 1)
		tok := []rune(pick(r, []string{"(", ")", "[", "]", "{", "}", ",", ".", "|", "&", "`", "'", "\"", "$", "@@", "::0", "let", "in", "unknown_fn(@)", "abs()", "[::0]", "sort_by(@)", "#"}))
		rs = append(rs[:i], append(tok, rs[i:]...)...)
	case 2:
		rs = rs[:r.Intn(len(rs))]
	case 3:
		return &Expr{K: KRaw, S: pick(r, []string{"", " ", "a..b", "foo[", "\"a\\uD834\\uZZZZ\"", "\"\\uD800\"", "\"\\u12\"", "\"a\\qb\"", "a # b", "a ; b", "a ^ b", "~a", "a ? b", "a \\ b", "a\x01b", "\u00e9", "a \u00ff b", "'a\\", "a.\"b\\\"", "`[1,`", "a[?b ==]", "a[1:2:0]", "abs(", "$.", "a.[", "{a}", "let $a in b", "a ||", "&&b", "abs(`1`, `2`)", "nosuchfn(@)", "a[::0]", "`{bad json`", "'unterminated", "\"x", "a | | b", "let $x = in $x", "$", "@", "*", "a.b.c", "[0]", "{a: b}", "a[?b]", "&a", "sort_by(a, b)", "map(a, b)", "length(@, @)", "a[1:2:3:4]", "a.`1`", "`1` + ", "!"})}
	default:
		i := r.Intn(len(rs))
		rs[i] = pick(r, []rune("()[]{}.,|&`'\"$@*?:=<>!+-/% abz09_#;^~\\\x01\u00e9\u00ff"))
	}
	return &Expr{K: KRaw, S: string(rs)}
}

// ExprSpec is the explicit, replayable form of one generated expression.
type ExprSpec struct {
	Text string `json:"text"`
	Tree *Expr  `json:"tree,omitempty"`
}

func specOf(e *Expr) ExprSpec { return ExprSpec{Text: e.Text(), Tree: e} }

func mustJSON(v any) string {
	b, err := json.Marshal(v)
	if err != nil {
		panic(err)
	}
	return string(b)
}
