#!/bin/bash
# prepare.sh <scratch-dir> [plain|race|both]
# Copies /repo's CURRENT WORKING TREE to <scratch-dir>, splices the simulator
# seams into the copy, injects the simulator runtime and harness, runs the
# repository's own test suite on the instrumented copy (behaviour-preservation
# guard) and builds the harness binaries  <scratch-dir>/jmsim  and
# <scratch-dir>/jmsim.race .  Exit 2 on any machinery trouble.
set -u
SCR="$1"; MODE="${2:-both}"
VERIF="$(cd "$(dirname "$0")/.." && pwd)"
REPO="${VERIF_REPO:-/repo}"
export GOFLAGS=-mod=mod GOPROXY=off GOSUMDB=off GOTOOLCHAIN=local GO111MODULE=on
export GOCACHE="${GOCACHE:-/root/.cache/go-build}"
GO=go1.26.8
die() { echo "prepare: $*" >&2; exit 2; }
command -v $GO >/dev/null || die "go1.26.8 not found"
[ -x "$VERIF/bin/instrument" ] || (cd "$VERIF/sim/instrument" && $GO build -o "$VERIF/bin/instrument" .) || die "cannot build instrumenter"
rm -rf "$SCR"; mkdir -p "$SCR/src" || die "mkdir"
# working tree: tracked + untracked files, minus .git
(cd "$REPO" && tar --exclude=.git -cf - .) | (cd "$SCR/src" && tar -xf -) || die "copy failed"
MOD=$(awk '/^module /{print $2; exit}' "$SCR/src/go.mod")
[ "$MOD" = "github.com/woodsbury/jmespath" ] || die "unexpected module path '$MOD'"
mkdir -p "$SCR/src/internal"
cp -r "$VERIF/sim/overlay/internal/." "$SCR/src/internal/" || die "overlay copy failed"
"$VERIF/bin/instrument" -dir "$SCR/src" -out "$SCR/sites.json" >"$SCR/instrument.log" 2>&1 || { cat "$SCR/instrument.log" >&2; die "instrumentation failed"; }
cd "$SCR/src" || die cd
if [ "${VERIF_SKIP_SUITE:-0}" != 1 ]; then
  # behaviour-preservation guard for the splices: damage would fail every time,
  # so one pass out of three attempts is enough (a tree whose own suite is flaky
  # must not be mistaken for splice damage)
  ok=0
  for attempt in 1 2 3; do
    if $GO test -trimpath -vet=off -count=1 -parallel 1 ./... >"$SCR/suite.log" 2>&1; then ok=1; break; fi
    grep -q "build failed\|cannot find\|syntax error" "$SCR/suite.log" && break
  done
  [ $ok = 1 ] || { tail -30 "$SCR/suite.log" >&2; die "repository test suite fails on the instrumented copy (or does not build)"; }
fi
if [ "$MODE" = plain ] || [ "$MODE" = both ]; then
  $GO build -trimpath -o "$SCR/jmsim" ./internal/simharness >"$SCR/build.log" 2>&1 || { tail -30 "$SCR/build.log" >&2; die "harness build failed"; }
fi
if [ "$MODE" = race ] || [ "$MODE" = both ]; then
  $GO build -trimpath -race -o "$SCR/jmsim.race" ./internal/simharness >"$SCR/build-race.log" 2>&1 || { tail -30 "$SCR/build-race.log" >&2; die "harness race build failed"; }
fi
exit 0
