#!/bin/bash
# mutrun.sh <patch.diff> [props...]  — apply a patch to a scratch copy of /repo and run the checks against it.
# Prints one line per property: <patch> <prop> exit=<code> [class]
set -u
VERIF="$(cd "$(dirname "$0")/.." && pwd)"
PATCH="$(realpath "$1")"; shift
NAME="$(basename "$PATCH" .diff)"; [ "$NAME" = patch ] && NAME="$(basename "$(dirname "$PATCH")")"
PROPS=("$@"); [ ${#PROPS[@]} -gt 0 ] || PROPS=(C06 C07 C15)
W="$(mktemp -d /tmp/jmmut-XXXXXX)"
trap 'rm -rf "$W"' EXIT
mkdir -p "$W/repo" "$W/out"
(cd /repo && tar --exclude=.git -cf - .) | (cd "$W/repo" && tar -xf -)
(cd "$W/repo" && patch -p1 -s < "$PATCH") || { echo "$(basename "$PATCH") patch-failed"; exit 2; }
for P in "${PROPS[@]}"; do
  VERIF_REPO="$W/repo" VERIF_OUT="$W/out" VERIF_SCALE="${VERIF_SCALE:-1}" "$VERIF/check" "$P" "${MUT_TIER:-quick}" >"$W/$P.log" 2>&1
  code=$?
  cls=$(grep -o 'candidate violation class=[a-z-]*' "$W/$P.log" | head -1 | sed 's/candidate violation class=//')
  t=$(grep -o 'done in [0-9.]*s' "$W/$P.log" | head -1)
  echo "$NAME $P exit=$code ${cls:-} $t"
  if [ "${MUT_VERBOSE:-0}" = 1 ] || [ $code = 2 ]; then grep -E "TROUBLE|VIOLATION|jmsim: |prepare:|check:" "$W/$P.log" | head -20; fi
  if [ -n "${MUT_KEEP:-}" ]; then mkdir -p "$MUT_KEEP"; cp "$W/$P.log" "$MUT_KEEP/$NAME-$P.log"; cp -r "$W/out/replays" "$MUT_KEEP/replays-$NAME-$P" 2>/dev/null; fi
done
