#!/usr/bin/env python3
# finalize_design.py <selfcheck log>: replace the table of DESIGN.md §8 by the one generated from the log
import sys,subprocess,re
log=sys.argv[1]
out=subprocess.run(['python3','/verif/lib/matrix_design.py',log],capture_output=True,text=True).stdout
table=out.split('\n\nBenign patches run')[0].strip()
ben=re.search(r'Benign patches run: (\d+); not silent: (.*)',out)
p='/verif/DESIGN.md'
s=open(p).read()
a=s.index('| change | breaks | reported as (quick tier, VERIF_SEED=1) | what it is |')
b=s.index('\n\n',a)
s=s[:a]+table+s[b:]
n=len([l for l in table.split('\n') if (l.startswith('| c') and not l.startswith('| change')) or l.startswith('| m')])
s=re.sub(r'All \d+ listed changes are caught', 'All %d listed changes are caught'%n, s)
open(p,'w').write(s)
missed=[l for l in open(log) if 'MISSED' in l or 'FALSE ALARM' in l or 'NONDETERMINISM' in l]
print('rows',n,'benign',ben.groups() if ben else None,'problems',missed)
