#!/usr/bin/env python3
# update_meta.py <selfcheck log>: record in every seeded/<id>/meta.json what the checks reported for it
import sys,re,json,glob,os
res={}
for l in open(sys.argv[1]):
    m=re.match(r'^(\S+) (C\d\d) exit=(\d+)\s*(\S*)',l)
    if not m: continue
    n,p,code,cls=m.groups()
    if cls.startswith('done'): cls=''
    res.setdefault(n,{})[p]={'0':'not reported (exit 0)','2':'inconclusive (exit 2)'+(' '+cls if cls else '')}.get(code, 'VIOLATION class '+(cls or '?'))
for d in sorted(glob.glob('/verif/seeded/*/')):
    i=os.path.basename(d.rstrip('/'))
    m=json.load(open(d+'meta.json'))
    m['breaks']=m.get('property')
    if i in res:
        m['detected_by_quick_tier']=res[i]
    m['what_was_run']=("lib/seedtest.sh <agent output> %s (patch applies to a scratch copy, repository suite passes 3 times with the change, the agent's demonstration fails with the change and passes on the pristine tree); "
        "lib/mutrun.sh seeded/%s/patch.diff %s (./check %s quick against a patched scratch copy of /repo, VERIF_SEED=1), as part of ./check selfcheck")%(i,i,m.get('property'),m.get('property'))
    json.dump(m,open(d+'meta.json','w'),indent=1)
print(len(res),'entries')
