#!/bin/bash
# seedtest.sh <agent-out/changeK dir> <seeded id>  — confirm a sub-agent's change independently, then keep it under seeded/<id>
set -u
VERIF="$(cd "$(dirname "$0")/.." && pwd)"
SRC="$(realpath "$1")"; ID="$2"
export GOFLAGS=-mod=mod GOPROXY=off
W="$(mktemp -d /tmp/jmseed-XXXXXX)"; trap 'rm -rf "$W"' EXIT
mkdir -p "$W/mut" "$W/clean"
(cd /repo && tar --exclude=.git -cf - .) | (cd "$W/mut" && tar -xf -)
(cd /repo && tar --exclude=.git -cf - .) | (cd "$W/clean" && tar -xf -)
(cd "$W/mut" && patch -p1 -s < "$SRC/patch.diff") || { echo "$ID: patch does not apply"; exit 1; }
if (cd "$W/mut" && git diff --no-index --stat "$W/clean" "$W/mut" 2>/dev/null | grep -q "_test.go"); then echo "$ID: patch touches test files"; exit 1; fi
(cd "$W/mut" && go build ./... ) || { echo "$ID: does not build"; exit 1; }
for i in 1 2 3; do (cd "$W/mut" && go test -vet=off -count=1 ./... >"$W/suite.log" 2>&1) || { echo "$ID: suite fails with the change (attempt $i)"; tail -5 "$W/suite.log"; exit 1; }; done
DEMO=$(python3 -c "import json;print(json.load(open('$SRC/meta.json')).get('demo_cmd',''))")
[ -n "$DEMO" ] || DEMO="go test -vet=off -count=1 -run TestDemo ."
cp "$SRC/demo_test.go" "$W/mut/zz_demo_test.go"; cp "$SRC/demo_test.go" "$W/clean/zz_demo_test.go"
(cd "$W/mut" && timeout 600 bash -c "$DEMO" >"$W/demo-mut.log" 2>&1); m=$?
(cd "$W/clean" && timeout 600 bash -c "$DEMO" >"$W/demo-clean.log" 2>&1); c=$?
echo "$ID: demo with change exit=$m, on pristine tree exit=$c   ($DEMO)"
if [ $m = 0 ] || [ $c != 0 ]; then echo "$ID: demonstration not confirmed"; tail -5 "$W/demo-mut.log" "$W/demo-clean.log"; exit 1; fi
mkdir -p "$VERIF/seeded/$ID"
cp "$SRC/patch.diff" "$SRC/demo_test.go" "$VERIF/seeded/$ID/"
python3 - "$SRC/meta.json" "$VERIF/seeded/$ID/meta.json" "$DEMO" <<'PY'
import json,sys
m=json.load(open(sys.argv[1]))
m['confirmed']={'suite_passes_with_change':'go test -vet=off -count=1 ./... x3 on a scratch copy','demo_fails_with_change':sys.argv[3],'demo_passes_on_pristine_tree':True}
json.dump(m,open(sys.argv[2],'w'),indent=1)
PY
echo "$ID: confirmed and kept"
