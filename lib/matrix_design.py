#!/usr/bin/env python3
# matrix_design.py <selfcheck log> : the table of DESIGN.md §8 from the output of ./check selfcheck
import sys,re,json,os,glob
res={}
for l in open(sys.argv[1]):
    m=re.match(r'^(\S+) (C\d\d) exit=(\d+)\s*(\S*)',l)
    if not m: continue
    n,p,code,cls=m.groups()
    if cls.startswith('done'): cls=''
    res.setdefault(n,{})[p]={'0':'–','2':'inc.'+(' ('+cls+')' if cls else '')}.get(code, cls or 'violation')
def short(t,n=140):
    t=' '.join(t.split()); return t if len(t)<=n else t[:n-1]+'…'
own={'m01':'C07','m02':'C07','m03':'C07','m04':'C07','m05':'C06 C07','m06':'C06 C07','m07':'C06 C07','m08':'C07','m09':'C06','m10':'C06','m11':'C15','m12':'C15','m13':'C15','m14':'C15','m15':'C15','m16':'C06 C07'}
print('| change | breaks | reported as (quick tier, VERIF_SEED=1) | what it is |'); print('|---|---|---|---|')
for n in sorted(res):
    if n[0] not in 'cm': continue
    if n[0]=='c':
        m=json.load(open('/verif/seeded/%s/meta.json'%n)); br=m['property']; what=short(m.get('summary',''))
    else:
        br=own.get(n[:3],'?'); what='own patch: '+n[4:].replace('-',' ')
    cell=', '.join('%s: %s'%(p,res[n][p]) for p in sorted(res[n]))
    print('| %s | %s | %s | %s |'%(n,br,cell,what))
ben=[n for n in res if n[0] in 'bxy']
bad=[n for n in ben if any(v!='–' for v in res[n].values())]
print()
print('Benign patches run: %d; not silent: %s'%(len(ben), bad or 'none'))
