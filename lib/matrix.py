#!/usr/bin/env python3
# matrix.py <log> : turn lib/mutrun.sh output lines into the markdown table of DESIGN.md §8
import sys,re,collections
rows=collections.OrderedDict()
for l in open(sys.argv[1]):
    m=re.match(r'^(\S+) (C\d\d) exit=(\d+)\s*(\S*)',l)
    if not m or not re.match(r'^(c\d\d[a-z]-\d|m\d\d|b\d\d)',m.group(1)): continue
    name,prop,code,cls=m.groups()
    cell={'0':'–','2':'inc.'}.get(code, cls or 'violation')
    if code=='1' and cls.startswith('done'): cell='violation'
    if code=='2' and cls and not cls.startswith('done'): cell='inc. ('+cls+')'
    rows.setdefault(name,{})[prop]=cell
print('| change | C06 | C07 | C15 |'); print('|---|---|---|---|')
for n,r in rows.items():
    print('| %s | %s | %s | %s |'%(n,r.get('C06',''),r.get('C07',''),r.get('C15','')))
