#!/bin/bash
# selfcheck.sh [quick|full]
#  1. determinism: the same (VERIF_SEED, run index) must give the same event log
#     (task/site sequence, map permutations served, outcomes) in every process,
#     at GOMAXPROCS 1/4/16, in the plain and the -race build;
#  2. (full) sensitivity: every patch under selftest/mutants must be caught by the
#     checks named in selftest/expected.txt, every patch under selftest/benign must
#     stay silent.
set -u
VERIF="$(cd "$(dirname "$0")/.." && pwd)"
MODE="${1:-full}"
export GOFLAGS=-mod=mod GOPROXY=off GOSUMDB=off GOTOOLCHAIN=local GO111MODULE=on
SCR="$(mktemp -d /tmp/jmself-XXXXXX)"; trap 'rm -rf "$SCR"' EXIT
"$VERIF/lib/prepare.sh" "$SCR" both || exit 2
N=200; REP=5; [ "$MODE" = quick ] && { N=60; REP=2; }
fail=0
# (C07 twice: ordinary index space and the hot index space from 2^40 on)
for PF in C06:0 C07:0 C15:0 C07:1099511627776; do
  P=${PF%%:*}; F=${PF##*:}; TAG=$P; [ $F = 0 ] || TAG=$P-hot
  jobs=()
  for bin in jmsim jmsim.race; do for mp in 1 4 16; do for r in $(seq 1 $REP); do
    out="$SCR/dg-$TAG-$bin-$mp-$r.txt"
    ( GOMAXPROCS=$mp GORACE="halt_on_error=0 exitcode=66 atexit_sleep_ms=0" "$SCR/$bin" worker -prop $P -seed "${VERIF_SEED:-1}" -from $F -to $((F+N)) -nonative -digests "$out" >/dev/null 2>"$out.err" || echo "worker failed: $out" >&2 ) &
    jobs+=($!)
    if [ ${#jobs[@]} -ge 16 ]; then wait "${jobs[0]}"; jobs=("${jobs[@]:1}"); fi
  done; done; done
  wait
  ref="$SCR/dg-$TAG-jmsim-1-1.txt"
  [ -s "$ref" ] || { echo "selfcheck: no digests for $TAG"; fail=1; continue; }
  n=0
  for f in "$SCR"/dg-$TAG-j*.txt; do
    n=$((n+1))
    if ! cmp -s "$ref" "$f"; then echo "selfcheck: NONDETERMINISM $TAG: $(basename "$f") differs from $(basename "$ref"):"; diff "$ref" "$f" | head -5; fail=1; fi
  done
  echo "selfcheck: determinism $TAG: $n event logs of $N runs each identical=$([ $fail = 0 ] && echo yes || echo NO) (plain+race, GOMAXPROCS 1/4/16)"
done
[ $fail = 0 ] || exit 2
[ "$MODE" = quick ] && exit 0
# sensitivity
while read -r name props; do
  [ -z "$name" ] && continue
  case "$name" in \#*) continue;; esac
  f="$VERIF/selftest/mutants/$name.diff"
  [ -f "$f" ] || f="$VERIF/seeded/$name/patch.diff"
  for P in $props; do
    res=$("$VERIF/lib/mutrun.sh" "$f" "$P")
    echo "$res"
    case "$res" in *"exit=1"*) ;; *) echo "selfcheck: MISSED $name by $P"; fail=1;; esac
  done
done < "$VERIF/selftest/expected.txt"
for f in "$VERIF"/selftest/benign/*.diff; do
  res=$("$VERIF/lib/mutrun.sh" "$f")
  echo "$res"
  if echo "$res" | grep -qv "exit=0"; then echo "selfcheck: FALSE ALARM or trouble on benign $(basename "$f")"; fail=1; fi
done
[ $fail = 0 ] && echo "selfcheck: all mutants caught, all benign patches silent" || exit 2
